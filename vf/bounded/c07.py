"""C07 bounded stand-in: multi-part formulas give row-aligned parts equal to separate builds.

Contracts (all from the statement):
  shape   : nested shape(result) == nested shape(formula) == nested shape(result.model_spec)
            (keys, tuple lengths and leaf positions; key order is not compared);
  rows    : every part has the same number of rows (and the same index on pandas output);
  part    : every part == model_matrix(<that part's terms>, data, drop_rows=set(R)) where R is the set
            of jointly dropped rows = positions at which some evaluated factor of ANY part is null
            (recomputed here by stand-alone evaluation of the factor expressions, as in C06);
            equality = same column names, same index (pandas), values equal (rtol 1e-9, NaN==NaN);
  spec    : every leaf spec regenerates its own part: spec.get_model_matrix(data, drop_rows=set(R)).
Scope: every structure skeleton built from '~', '|', tuples and keywords (Formula(**kw) / dict) with
nesting depth <= 3 and <= 4 parts (exhaustively enumerated), parts drawn from a pool of term sets over
x, y, z (float) and A, B (text) that share factors across parts, nulls scattered over the columns.
A second driver ('shared-factor-ranks') places ONE coded factor expression C(v, contr.<c>) in two parts that need it
at different ranks (full rank first / reduced rank first), for every built-in coding and every 2-part skeleton.
A case whose parts cannot be built separately (exception in the separate build) is skipped and counted:
the statement defines the expected value through that build.
"""
from __future__ import annotations

import itertools
import random
import warnings

import numpy as np
import pandas as pd

from . import _nullrows_common as K

POOL = [
    "x", "y", "z", "A", "B", "x + A", "y + B", "x:A", "z + x", "center(z)", "C(B)", "A + B + A:B",
    "np.log(y)", "0 + z", "scale(x) + B", "lag(y) + z", "x + y + x:y", "C(A) + center(x)", "0",
]

ENTRIES = {
    "model_matrix": "model_matrix(SPEC, df, output=OUT)",
    "Formula.get_model_matrix": "Formula(SPEC).get_model_matrix(df, output=OUT)",
    "ModelSpec.from_spec.get_model_matrix": "ModelSpec.from_spec(SPEC, output=OUT).get_model_matrix(df)",
    # the same builds with attributes given as overrides at build time (for structured specs this is
    # ModelSpecs.get_model_matrix(data, **overrides)); na_action / ensure_full_rank restate the defaults
    "ModelSpecs.get_model_matrix(output=)": "ModelSpec.from_spec(SPEC).get_model_matrix(df, output=OUT)",
    "ModelSpecs.get_model_matrix(na_action=, ensure_full_rank=)":
        "ModelSpec.from_spec(SPEC, output=OUT).get_model_matrix(df, na_action='drop', ensure_full_rank=True)",
    # the specs attached to an earlier result of the same data, re-built with an override
    "result.model_spec.get_model_matrix(output=)": "model_matrix(SPEC, df).model_spec.get_model_matrix(df, output=OUT)",
}
OUTPUTS = ("pandas", "numpy", "sparse")
INDEXES = ("range", "str", "perm-int")

# --------------------------------------------------------------------------- skeletons
# node: ("leaf",) | ("tup", (children...)) | ("key", (keys...), (children...)) | ("str", nl, nr)
#   ("str", nl, nr): one formula string with nl '|'-parts left of '~' (0 = no '~') and nr parts right.


def _n_leaves(node):
    t = node[0]
    if t == "leaf":
        return 1
    if t == "str":
        return node[1] + node[2]
    if t == "tup":
        return sum(_n_leaves(c) for c in node[1])
    return sum(_n_leaves(c) for c in node[2])


def _depth(node):
    t = node[0]
    if t == "leaf":
        return 0
    if t == "str":
        nl, nr = node[1], node[2]
        return (1 if nl else 0) + (1 if max(nl, nr) > 1 else 0)
    if t == "tup":
        return 1 + max(_depth(c) for c in node[1])
    return 1 + max(_depth(c) for c in node[2])


KEYSETS = {1: [("a",)], 2: [("lhs", "rhs"), ("root", "a")], 3: [("root", "a", "b")]}
STR_NODES = [("str", 1, 1), ("str", 0, 2), ("str", 0, 3), ("str", 1, 2), ("str", 2, 1), ("str", 2, 2), ("str", 1, 3), ("str", 0, 4)]


def _compositions(total, k):
    if k == 1:
        if total >= 1:
            yield (total,)
        return
    for first in range(1, total - k + 2):
        for rest in _compositions(total - first, k - 1):
            yield (first,) + rest


_MEMO = {}


def _nodes(depth, L):
    """all nodes with nesting depth <= depth and exactly L parts"""
    key = (depth, L)
    if key in _MEMO:
        return _MEMO[key]
    out = []
    if L == 1:
        out.append(("leaf",))
    if depth >= 1:
        out += [s for s in STR_NODES if _n_leaves(s) == L and _depth(s) <= depth]
        for k in (2, 3, 4):
            for comp in _compositions(L, k):
                for ch in itertools.product(*(_nodes(depth - 1, c) for c in comp)):
                    out.append(("tup", ch))
        for k in (1, 2, 3):
            for comp in _compositions(L, k):
                for ch in itertools.product(*(_nodes(depth - 1, c) for c in comp)):
                    for keys in KEYSETS[k]:
                        out.append(("key", keys, ch))
    _MEMO[key] = out
    return out


def skeletons(max_depth=3, max_leaves=4):
    res = []
    for L in range(1, max_leaves + 1):
        for node in _nodes(max_depth, L):
            if node[0] != "leaf":
                res.append(node)
    return res


def spec_code(node, parts, top=True, kw_style="Formula"):
    """Python source of the formula spec for a skeleton; `parts` is consumed left to right."""
    t = node[0]
    if t == "leaf":
        return repr(parts.pop(0))
    if t == "str":
        nl, nr = node[1], node[2]
        left = " | ".join(parts.pop(0) for _ in range(nl))
        right = " | ".join(parts.pop(0) for _ in range(nr))
        return repr(f"{left} ~ {right}" if nl else right)
    if t == "tup":
        return "(" + ", ".join(spec_code(c, parts, False) for c in node[1]) + ",)"
    keys, ch = node[1], node[2]
    items = [(k, spec_code(c, parts, False)) for k, c in zip(keys, ch)]
    if top and kw_style == "Formula":
        pos = [v for k, v in items if k == "root"]
        return "Formula(" + ", ".join(pos + [f"{k}={v}" for k, v in items if k != "root"]) + ")"
    return "{" + ", ".join(f"{k!r}: {v}" for k, v in items) + "}"


def tags_of(node, inside_tuple=False):
    tags = set()
    t = node[0]
    if t == "tup":
        if inside_tuple:
            tags.add("tuple-in-tuple")
        for c in node[1]:
            tags |= tags_of(c, True)
    elif t == "key":
        for c in node[2]:
            tags |= tags_of(c, False)
    return tags


# --------------------------------------------------------------------------- one case

_CALLS = {}


def _call(entry):
    fn = _CALLS.get(entry)
    if fn is None:
        env = {}
        exec(K.PRELUDE + f"def call(SPEC, df, OUT):\n    return {ENTRIES[entry]}\n", env)
        fn = _CALLS[entry] = env["call"]
    return fn


def _eval_spec(code):
    env = {}
    exec(K.PRELUDE + f"SPEC = {code}\n", env)
    return env["SPEC"]


def same_matrix(a, b):
    """None if equal, else a short description."""
    wa, wb = K.unwrap(a), K.unwrap(b)
    if type(wa) is not type(wb):
        return f"types {type(wa).__name__} vs {type(wb).__name__}"
    na, nb = list(a.model_spec.column_names), list(b.model_spec.column_names)
    if na != nb:
        return f"column names {na} vs {nb}"
    if isinstance(wa, pd.DataFrame):
        if list(wa.columns) != list(wb.columns):
            return f"frame columns {list(wa.columns)} vs {list(wb.columns)}"
        if list(wa.index) != list(wb.index):
            return f"index {list(wa.index)} vs {list(wb.index)}"
    da, db = K.dense(a), K.dense(b)
    if da.shape != db.shape:
        return f"shape {da.shape} vs {db.shape}"
    try:
        fa, fb = da.astype(float), db.astype(float)
    except (TypeError, ValueError):
        return None if (da == db).all() else "object cells differ"
    if not np.allclose(fa, fb, rtol=1e-9, atol=1e-12, equal_nan=True):
        return f"values {fa.tolist()} vs {fb.tolist()}"
    return None


def run_one(case):
    """case = (skeleton, parts tuple, kw_style, masks dict items, n, index_kind, entry, output)
    returns (nontrivial, [(clause, cls, detail)], skipped)"""
    from formulaic import Formula, model_matrix

    node, parts, kw_style, masks, n, ik, entry, out = case
    code = spec_code(node, list(parts), True, kw_style)
    df = K.build(K.frame_code(n, dict(masks), ik, "object"))
    fails = []
    with warnings.catch_warnings():
        warnings.simplefilter("ignore")
        spec = _eval_spec(code)
        F = Formula(_eval_spec(code))
        f_leaves = list(K.leaves(F))
        # jointly dropped rows: union over all parts of the evaluated-factor nulls
        exprs = []
        for _, leaf in f_leaves:
            for term in leaf:
                for fac in term.factors:
                    if fac.eval_method.value != "literal" and fac.expr not in exprs:
                        exprs.append(fac.expr)
        R = set()
        for e in exprs:
            R |= K.null_positions(K.eval_factor(e, df))
        nontrivial = bool(R) and len(R) < n
        # separate builds (the statement's reference value)
        sep = {}
        try:
            for path, leaf in f_leaves:
                sep[path] = model_matrix(leaf, K.build(K.frame_code(n, dict(masks), ik, "object")), drop_rows=set(R), output=out)
        except Exception:
            return False, [], True
        try:
            res = _call(entry)(spec, df, out)
        except Exception as e:
            tg = sorted(tags_of(node))
            return nontrivial, [("C07.joint.completes", (",".join(tg) or "flat") + f" | exception {type(e).__name__}",
                                 f"every part builds separately, the joint build raises {type(e).__name__}: {e}")], False
        want = K.shape_of(F)
        if K.shape_of(res) != want:
            fails.append(("C07.shape.result", "shape", f"result shape {K.shape_of(res)} formula shape {want}"))
            return nontrivial, fails, False
        try:
            specs = res.model_spec
            sshape = K.shape_of(specs)
        except Exception as e:
            specs, sshape = None, f"model_spec raises {type(e).__name__}: {e}"
        if sshape != want:
            fails.append(("C07.shape.specs", "shape", f"model_spec shape {sshape} formula shape {want}"))
        r_leaves = dict(K.leaves(res))
        counts = {p: K.nrows(m) for p, m in r_leaves.items()}
        if len(set(counts.values())) > 1:
            zero = [p for p, m in r_leaves.items() if K.dense(m).ndim == 2 and K.dense(m).shape[1] == 0]
            odd = [p for p, c in counts.items() if c != n - len(R)]
            cls = "zero-column-part" if zero and set(odd) <= set(zero) else "row-count"
            fails.append(("C07.rows.aligned", cls, f"rows per part {counts}; jointly dropped {sorted(R)} of {n}"))
        elif out == "pandas":
            idx = {p: tuple(K.unwrap(m).index) for p, m in r_leaves.items()}
            if len(set(idx.values())) > 1:
                fails.append(("C07.rows.aligned", "index", f"index per part {idx}"))
        for path, m in r_leaves.items():
            d = same_matrix(m, sep[path])
            if d is not None:
                zero = K.dense(m).ndim == 2 and K.dense(m).shape[1] == 0
                fails.append(("C07.part.equals-separate-build", "zero-column-part" if zero else "differs",
                              f"part {path} ({F[path] if False else ''}): joint vs separate: {d}"))
                break
        if specs is not None and sshape == want:
            for path, ms in K.leaves(specs):
                try:
                    again = ms.get_model_matrix(K.build(K.frame_code(n, dict(masks), ik, "object")), drop_rows=set(R))
                except Exception as e:
                    fails.append(("C07.spec.regenerates-part", f"exception {type(e).__name__}", f"part {path}: {type(e).__name__}: {e}"))
                    break
                d = same_matrix(again, r_leaves[path])
                if d is not None:
                    zero = K.dense(again).ndim == 2 and K.dense(again).shape[1] == 0
                    fails.append(("C07.spec.regenerates-part", "zero-column-part" if zero else "differs", f"part {path}: regenerated vs joint: {d}"))
                    break
            # the attached (structured) spec as a whole, materialized on the original data without any caller drop set, reproduces
            # the result: same shape, all parts with the same rows, each part equal to the original part
            if not any(f[0] == "C07.spec.regenerates-part" for f in fails) and hasattr(specs, "get_model_matrix"):
                try:
                    whole = specs.get_model_matrix(K.build(K.frame_code(n, dict(masks), ik, "object")))
                    w_leaves = dict(K.leaves(whole))
                    if K.shape_of(whole) != want:
                        fails.append(("C07.spec.regenerates-whole", "shape", f"regenerated shape {K.shape_of(whole)} formula shape {want}"))
                    else:
                        for path, m in r_leaves.items():
                            d = same_matrix(w_leaves[path], m)
                            if d is not None:
                                wc = {p_: K.nrows(m_) for p_, m_ in w_leaves.items()}
                                cls = "parts-not-row-aligned" if len(set(wc.values())) > 1 else "differs"
                                fails.append(("C07.spec.regenerates-whole", cls, f"part {path}: model_spec.get_model_matrix(data) vs original result: {d}; rows per regenerated part {wc}"))
                                break
                except Exception as e:
                    fails.append(("C07.spec.regenerates-whole", f"exception {type(e).__name__}", f"model_spec.get_model_matrix(data) raises {type(e).__name__}: {e}"))
    return nontrivial, fails, False


# --------------------------------------------------------------------------- repro

_REPRO_HELPERS = '''
def leaves(o, path=()):
    from formulaic.utils.structured import Structured
    if isinstance(o, Structured):
        for k, v in o._structure.items(): yield from leaves(v, path + (k,))
    elif isinstance(o, tuple):
        for i, v in enumerate(o): yield from leaves(v, path + (i,))
    else: yield path, o
def shape(o):
    from formulaic.utils.structured import Structured
    if isinstance(o, Structured): return ('S',) + tuple(sorted((k, shape(v)) for k, v in o._structure.items()))
    if isinstance(o, tuple): return ('T',) + tuple(shape(v) for v in o)
    return 'L'
def dense(m):
    w = m.__wrapped__
    return np.asarray(w.todense()) if scipy.sparse.issparse(w) else np.asarray(w)
def same(a, b):
    assert list(a.model_spec.column_names) == list(b.model_spec.column_names), (a.model_spec.column_names, b.model_spec.column_names)
    if isinstance(a.__wrapped__, pd.DataFrame):
        assert list(a.index) == list(b.index), (list(a.index), list(b.index))
    assert dense(a).shape == dense(b).shape, (dense(a).shape, dense(b).shape)
    assert np.allclose(dense(a).astype(float), dense(b).astype(float), rtol=1e-9, atol=1e-12, equal_nan=True)
'''


def repro(case, clause, R):
    node, parts, kw_style, masks, n, ik, entry, out = case
    code = spec_code(node, list(parts), True, kw_style)
    src = K.PRELUDE + K.frame_code(n, dict(masks), ik, "object")
    src += f"SPEC = {code}\nOUT = {out!r}\nR = set({sorted(R)!r})   # rows at which some evaluated factor of some part is null\n"
    src += _REPRO_HELPERS
    src += f"F = Formula({code})\n"
    src += "sep = {p: model_matrix(leaf, df.copy(), drop_rows=set(R), output=OUT) for p, leaf in leaves(F)}\n"
    src += f"res = {ENTRIES[entry]}\n"
    if clause == "C07.joint.completes":
        return src
    src += "assert shape(res) == shape(F), (shape(res), shape(F))\n"
    if clause == "C07.shape.specs":
        src += "assert shape(res.model_spec) == shape(F), (shape(res.model_spec), shape(F))\n"
    if clause == "C07.rows.aligned":
        src += "rows = {p: m.shape[0] for p, m in leaves(res)}\nassert len(set(rows.values())) == 1, rows\n"
        src += "if OUT == 'pandas':\n    assert len({tuple(m.index) for p, m in leaves(res)}) == 1\n"
    if clause == "C07.part.equals-separate-build":
        src += "for p, m in leaves(res):\n    same(m, sep[p])\n"
    if clause == "C07.spec.regenerates-part":
        src += "parts = dict(leaves(res))\nfor p, ms in leaves(res.model_spec):\n    same(ms.get_model_matrix(df.copy(), drop_rows=set(R)), parts[p])\n"
    if clause == "C07.spec.regenerates-whole":
        src += "parts = dict(leaves(res))\nwhole = res.model_spec.get_model_matrix(df.copy())\nassert shape(whole) == shape(F)\nfor p, m in leaves(whole):\n    same(m, parts[p])\n"
    return src


# --------------------------------------------------------------------------- workers / enumeration


def _describe(case):
    node, parts, kw_style, masks, n, ik, entry, out = case
    return {"spec": spec_code(node, list(parts), True, kw_style), "rows": n,
            "null_masks": {k: bin(v) for k, v in masks}, "index": ik, "entry": entry, "output": out}


def _joint_R(case):
    from formulaic import Formula

    node, parts, kw_style, masks, n, ik, entry, out = case
    df = K.build(K.frame_code(n, dict(masks), ik, "object"))
    F = Formula(_eval_spec(spec_code(node, list(parts), True, kw_style)))
    R = set()
    for _, leaf in K.leaves(F):
        for term in leaf:
            for fac in term.factors:
                if fac.eval_method.value != "literal":
                    R |= K.null_positions(K.eval_factor(fac.expr, df))
    return R


def _worker(cases):
    """Every case is guarded: an exception while setting a case up (parsing, reference builds), judging it or
    building its witness becomes a failure record of that case (class oracle-not-applicable:<Type>)."""
    n_eval, keys, samples, failures, skipped = 0, set(), [], [], 0
    first_skipped = None
    seen = {}
    for case in cases:
        n_eval += 1
        try:
            nontrivial, fails, sk = run_one(case)
            if sk:
                skipped += 1
                first_skipped = first_skipped or _describe(case)
                continue
            if nontrivial:
                keys.add(K.khash(case))
                if len(samples) < 2:
                    samples.append(_describe(case))
            for clause, cls, detail in fails:
                seen[(clause, cls)] = seen.get((clause, cls), 0) + 1
                w = {"case": _describe(case)}
                if seen[(clause, cls)] <= K.MAX_REPORTED_PER_CLASS:
                    try:
                        with warnings.catch_warnings():
                            warnings.simplefilter("ignore")
                            w["code"] = repro(case, clause, _joint_R(case))
                    except Exception as e:
                        w["code_unavailable"] = f"{type(e).__name__}: {e}"
                failures.append({"clause": clause, "cls": cls, "witness": w, "detail": detail})
        except Exception as e:
            failures.append(K.oracle_failure(e, "C07.part.equals-separate-build", repr(case)[:600]))
    if skipped:
        failures.append({"skipped": skipped, "first": first_skipped})
    return n_eval, keys, samples, failures


def gen_cases(rng, skels, per_skeleton, rows=6):
    cols = ("x", "y", "z", "A", "B")
    combos = list(itertools.product(ENTRIES, OUTPUTS, INDEXES))
    for si, node in enumerate(skels):
        L = _n_leaves(node)
        has_key_top = node[0] == "key"
        for r in range(per_skeleton):
            parts = tuple(rng.sample(POOL, L))
            kw_style = "Formula" if (not has_key_top or (si + r) % 2 == 0) else "dict"
            # scatter 0-2 nulls per column; column z (used by center) is null-free half of the time
            masks = []
            for c in cols:
                k = rng.choice([0, 0, 1, 1, 2]) if c != "z" else rng.choice([0, 0, 0, 1])
                m = 0
                for i in rng.sample(range(rows), k):
                    m |= 1 << i
                masks.append((c, m))
            entry, out, ik = combos[(si * 7 + r * 5) % len(combos)]
            yield (node, parts, kw_style, tuple(masks), rows, ik, entry, out)


# --- shared categorical factor with an explicit coding, at different ranks in different parts -------------
CONTRASTS = ("treatment", "sum", "helmert", "poly", "SAS", "diff")


def shared_factor_parts(contrast, var="A", other="B"):
    """(full-rank uses, reduced-rank uses, mixed single-part use) of ONE factor expression E.
    Full rank: E is the first categorical main effect of a part without intercept; reduced rank: the part
    has an intercept (explicit `1 +`, so that nested positions -- which get no default intercept -- agree)."""
    E = f"C({var}, contr.{contrast})"
    O = f"C({other}, contr.{contrast})"
    full = [f"0 + {E}", f"0 + {E} + x", f"0 + {E} + {E}:z"]
    reduced = [f"1 + {E}", f"1 + {E} + x", f"1 + z + {E}", f"1 + {O} + {E}"]
    mixed = [f"0 + {O} + {E} + {E}:{O}", f"0 + {E}:{O} + x"]
    return full, reduced, mixed


def shared_factor_cases(rng, skels2, skels3, thorough, rows=6):
    """Every 2-part skeleton x every built-in contrast x (full rank first / reduced rank first / mixed) with
    the SAME factor expression in both parts; thorough adds 3-part skeletons (third part from the pool)."""
    cols = ("x", "y", "z", "A", "B")
    combos = list(itertools.product(ENTRIES, OUTPUTS, INDEXES))
    n = 0
    for contrast in CONTRASTS:
        for var, other in (("A", "B"), ("B", "A")):
            full, reduced, mixed = shared_factor_parts(contrast, var, other)
            pairs = []
            for i, f in enumerate(full):
                r = reduced[i % len(reduced)]
                pairs += [(f, r), (r, f)]
            pairs += [(mixed[0], reduced[0]), (full[0], mixed[0]), (reduced[3], full[1]), (mixed[1], reduced[1])]
            if var == "B" and not thorough:
                pairs = pairs[:1] if CONTRASTS.index(contrast) % 2 else pairs[1:2]
            for node in skels2:
                for pi, (p1, p2) in enumerate(pairs):
                    if not thorough and (n + pi) % 4 and pi >= 2:
                        continue  # quick: the two plain orders always, the other combinations rotate
                    masks = []
                    for c in cols:
                        k = rng.choice([0, 0, 1]) if c in ("A", "B", "z") else rng.choice([0, 1, 1])
                        m = 0
                        for i in rng.sample(range(rows), k):
                            m |= 1 << i
                        masks.append((c, m))
                    entry, out, ik = combos[n % len(combos)]
                    n += 1
                    kw = "Formula" if n % 2 else "dict"
                    yield (node, (p1, p2), kw, tuple(masks), rows, ik, entry, out)
            if thorough:
                for node in skels3:
                    for (p1, p2) in pairs[:4]:
                        third = rng.choice(POOL)
                        parts = [p1, p2, third]
                        rng.shuffle(parts)
                        masks = []
                        for c in cols:
                            k = rng.choice([0, 0, 1])
                            m = 0
                            for i in rng.sample(range(rows), k):
                                m |= 1 << i
                            masks.append((c, m))
                        entry, out, ik = combos[n % len(combos)]
                        n += 1
                        yield (node, tuple(parts), "Formula" if n % 2 else "dict", tuple(masks), rows, ik, entry, out)


# --- the same term in two parts, written with another literal multiplier or another factor order ----------
SHARED_TERM_PAIRS = [
    # (a) literal scale on one side only / different scales on both sides
    ("x + 2.5:z", "z + y"), ("z + y", "x + 2.5:z"),
    ("y + 0.5:x", "x + z"), ("x + z", "y + 0.5:x"),
    ("0 + 2:A:z", "0 + A:z"), ("0 + A:z", "0 + 2:A:z"),
    ("1 + 2.5:z", "1 + 4:z + x"), ("2:x:z + y", "x:z"),
    ("3:A + x", "A + z"), ("0 + B", "0 + 1.5:B + y"),
    # (b) the same interaction written with the factors in another order
    ("0 + A:B", "0 + B:A + x"), ("0 + B:A + x", "0 + A:B"),
    ("x:z + y", "z:x"), ("0 + A:x", "0 + x:A + z"), ("A + B + A:B", "B + A + B:A"),
    ("C(A):z", "z:C(A) + x"),
    # both at once
    ("0 + 2:A:B", "0 + B:A"), ("x + 0.5:z:y", "y:z"),
]


def shared_term_cases(rng, skels2, skels3, thorough, rows=6):
    """Every 2-part skeleton x every pair above (the same factor combination in both parts, with another
    literal multiplier and/or another written factor order); thorough adds the 3-part skeletons."""
    cols = ("x", "y", "z", "A", "B")
    combos = list(itertools.product(ENTRIES, OUTPUTS, INDEXES))
    n = 0

    def masks_():
        out = []
        for c in cols:
            k = rng.choice([0, 0, 1])
            m = 0
            for i in rng.sample(range(rows), k):
                m |= 1 << i
            out.append((c, m))
        return tuple(out)

    for si, node in enumerate(skels2):
        for pi, (p1, p2) in enumerate(SHARED_TERM_PAIRS):
            n += 1
            if not thorough and (si + pi) % 2:
                continue  # quick: every pair on every other skeleton (alternating), all pairs x all skeletons in thorough
            entry, out, ik = combos[n % len(combos)]
            yield (node, (p1, p2), "Formula" if n % 2 else "dict", masks_(), rows, ik, entry, out)
    if thorough:
        for node in skels3:
            for (p1, p2) in SHARED_TERM_PAIRS:
                n += 1
                if n % 3:
                    continue
                parts = [p1, p2, rng.choice(POOL)]
                rng.shuffle(parts)
                entry, out, ik = combos[n % len(combos)]
                yield (node, tuple(parts), "Formula" if n % 2 else "dict", masks_(), rows, ik, entry, out)


def _run_driver(ctx, b, tasks, cls_prefix):
    rep = K.Reporter(ctx, b, fallback_clause="C07.part.equals-separate-build")
    with K.guard(ctx, "C07.part.equals-separate-build", b.name):
        results = K.run_pool(_worker, tasks, chunk=60)
        skipped, total, first = 0, 0, None
        for n_eval, keys, samples, failures in results:
            b.add_counts(n_eval, keys, samples)
            total += n_eval
            for f in failures:
                if "skipped" in f:
                    skipped += f["skipped"]
                    first = first or f.get("first")
                else:
                    f["cls"] = cls_prefix + f["cls"]
            rep.absorb([f for f in failures if "skipped" not in f])
        if total and skipped > 0.25 * total:
            # the statement's reference value is the separate build of each part: when that build fails for a
            # large share of ordinary parts the library is broken, which must not pass as "nothing to compare"
            rep.fail("C07.part.equals-separate-build", cls_prefix + "separate-build-raises",
                     {"case": first, "skipped_cases": skipped, "of": total},
                     f"{skipped} of {total} cases: a part could not be built on its own with the joint drop set (first: {first})")
        rep.note()
        if skipped:
            ctx.notes.append(f"bounded:{b.name}: {skipped} cases skipped (a part could not be built separately)")


def _run_bounded(ctx):
    rng = random.Random(ctx.seed * 7919 + 7)
    ctx.assume(
        "A-C07-joint-rows: the 'jointly dropped rows' are the positions at which some evaluated factor of any part is "
        "null (factor expressions evaluated stand-alone on the whole frame; pandas.isna)",
        "A-C07-equality: matrices are equal when column names, index labels (pandas output) and shapes agree and values "
        "agree to rtol=1e-9 (NaN equal to NaN); both builds run the same arithmetic so this is not expected to matter",
        "A-C07-separate-build: cases in which a part cannot be built on its own with the joint drop set are skipped "
        "(counted in notes): the statement defines the reference value through that build",
        "A-C07-shape: key order inside a keyed level is not part of the shape",
    )
    skels = skeletons(3, 4)
    per = 12 if ctx.thorough else 1
    if not ctx.thorough:
        # quick tier: every skeleton with <= 3 parts plus a seeded third of the 4-part ones
        small = [s for s in skels if _n_leaves(s) <= 3]
        big = [s for s in skels if _n_leaves(s) > 3]
        rng2 = random.Random(ctx.seed + 1)
        skels_used = small + rng2.sample(big, max(1, len(big) // 3))
    else:
        skels_used = skels
    with ctx.bounded(
        "structures",
        rule=f"every structure skeleton over '~', '|' (1-4 parts per side), tuples (2-4 items) and keywords "
        f"(a / lhs,rhs / root,a / root,a,b; Formula(**kw) and dict form) with depth<=3 and <=4 parts: {len(skels)} skeletons, "
        f"{len(skels_used)} used in this tier x {per} seeded draws of (distinct parts from an {len(POOL)}-entry pool, 6-row frame "
        "with 0-2 nulls per column, entry point (6: model_matrix, Formula.get_model_matrix, ModelSpec(s).get_model_matrix without and "
        "with build-time attribute overrides, specs of an earlier result re-built with an override), output, index kind); non-trivial when some but not all rows are jointly dropped",
        exhaustive=False,
        bound="depth<=3, parts<=4, rows=6, 5 columns",
    ) as b:
        _run_driver(ctx, b, list(gen_cases(rng, skels_used, per)), "")
    skels2 = [sk for sk in skels if _n_leaves(sk) == 2]
    skels3 = [sk for sk in skels if _n_leaves(sk) == 3]
    with ctx.bounded(
        "shared-factor-ranks",
        rule=f"the SAME categorical factor expression C(v, contr.<c>) for every built-in coding c in {list(CONTRASTS)} and v in A, B "
        f"placed in two parts of every 2-part skeleton ({len(skels2)}), once needed at full rank first and reduced rank second, "
        "once the other way round, plus parts that need both ranks themselves (main effect + interaction); "
        + (f"thorough: also every 3-part skeleton ({len(skels3)}) with a third pool part; " if ctx.thorough else "")
        + "same contracts as 'structures' (each part == its separate build == what its own spec regenerates)",
        exhaustive=False,
        bound="2-3 parts, depth<=3, rows=6, 6 codings",
    ) as b:
        _run_driver(ctx, b, list(shared_factor_cases(random.Random(ctx.seed * 7919 + 77), skels2, skels3, ctx.thorough)),
                    "shared-coded-factor | ")
    with ctx.bounded(
        "shared-term-variants",
        rule=f"the SAME factor combination in two parts of every 2-part skeleton ({len(skels2)}), written with a numeric literal "
        "multiplier on one side only or different multipliers on both sides (2.5:z vs z, 2:A:z vs A:z, ...) and/or with the "
        f"factors of an interaction in another order (A:B vs B:A, x:z vs z:x): {len(SHARED_TERM_PAIRS)} pairs, in both part orders; "
        + (f"thorough: all pairs x all 2-part skeletons and a third of the 3-part ones ({len(skels3)}); " if ctx.thorough
           else "quick: each pair on every other skeleton; ")
        + "same contracts as 'structures'",
        exhaustive=False,
        bound="2-3 parts, depth<=3, rows=6",
    ) as b:
        _run_driver(ctx, b, list(shared_term_cases(random.Random(ctx.seed * 7919 + 78), skels2, skels3, ctx.thorough)),
                    "shared-term-other-scale-or-order | ")
    if not ctx.explanation:
        ctx.explanation = (
            "bounded stand-in only (no deductive obligations registered in this run): shape / row alignment / "
            "part-equals-separate-build / spec-regenerates-part contracts from the C07 statement on the real entry "
            "points over all structure skeletons up to depth 3 and 4 parts"
        )


def run_bounded(ctx):
    """Never raises because of what the library under test returns or raises: anything that slips past the
    per-case guards is recorded as a violation (class oracle-not-applicable:<Type>) and the run ends normally."""
    with K.guard(ctx, "C07.part.equals-separate-build", "c07.run_bounded"):
        _run_bounded(ctx)
