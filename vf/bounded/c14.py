"""C14 bounded stand-in: every string over a token alphabet up to a length bound (and seeded
random character strings, and long repetitions) is parsed by the real parser under three
configurations; the outcome must be a return, `formulaic.errors.FormulaParsingError` (incl.
`FormulaSyntaxError`), or a plain `SyntaxError` only when an embedded Python fragment is itself
invalid Python. Anything else escaping, a parse that does not terminate, and a disabled
operator that is not rejected are violations.
"""
from __future__ import annotations

import ast
import hashlib
import re
import signal
import time
import traceback
from concurrent.futures import ProcessPoolExecutor

from . import _parser_enum as E

NPROC = 16
MAX_WITNESS_PER_CLASS = 2
PARSE_TIMEOUT_S = 10.0  # per parse; a hit is re-run once with 60 s before it is reported

# (name, include_intercept, feature flags)
CONFIGS = (
    ("default", True, ("MULTIPART", "TWOSIDED")),
    ("no-intercept+all-flags", False, ("MULTIPART", "MULTISTAGE", "TWOSIDED")),
    ("intercept+no-flags", True, ()),
)
FEATURE_OF_FLAG = {"TWOSIDED": "two-sided", "MULTIPART": "multi-part", "MULTISTAGE": "multi-stage"}


class _Timeout(BaseException):
    pass


def _alarm(signum, frame):
    raise _Timeout()


def _digest(key):
    return hashlib.blake2b(repr(key).encode(), digest_size=8).digest()


_PARSERS = {}


def get_parser(cfg):
    p = _PARSERS.get(cfg[0])
    if p is None:
        from formulaic.parser import DefaultFormulaParser

        FF = DefaultFormulaParser.FeatureFlags
        v = FF.NONE
        for f in cfg[2]:
            v |= getattr(FF, f)
        p = DefaultFormulaParser(include_intercept=cfg[1], feature_flags=v)
        _PARSERS[cfg[0]] = p
    return p


def parser_src(cfg):
    fl = " | ".join(f"DefaultFormulaParser.FeatureFlags.{f}" for f in cfg[2]) or "DefaultFormulaParser.FeatureFlags.NONE"
    return f"DefaultFormulaParser(include_intercept={cfg[1]!r}, feature_flags={fl})"


# --------------------------------------------------------------------------------------
# independent judgement of "an embedded Python fragment is itself invalid"
# --------------------------------------------------------------------------------------
_BACKTICKED = re.compile(r"`[^`]*`")


def valid_python(fragment):
    """Valid Python expression, backtick-quoted column names (documented inside fragments,
    grammar.md footnote 2) counting as identifiers."""
    for cand in (fragment, _BACKTICKED.sub(" _q_ ", fragment)):
        try:
            ast.parse(cand.strip(), mode="eval")
            return True
        except SyntaxError:
            continue
        except (ValueError, MemoryError, RecursionError):
            return False
    return False


def tokenizer_fragments(s):
    """Python-kind tokens as the library's tokenizer delimits them (tokens seen before the
    tokenizer itself gives up, if it does)."""
    from formulaic.parser.algos.tokenize import tokenize

    out = []
    try:
        for tok in tokenize(s):
            if tok.kind is not None and tok.kind.value == "python":
                out.append(tok.token)
    except Exception:
        pass
    return out


def _skip_string(s, i):
    """s[i] is a quote character: index just after the closing quote, or None."""
    q = s[i]
    j = i + 1
    while j < len(s):
        if s[j] == "\\":
            j += 2
            continue
        if s[j] == q:
            return j + 1
        j += 1
    return None


def user_fragments(s):
    """Fragments delimited the way a reader would: `{...}` and `name(...)` up to the matching
    closer, Python string literals and nested brackets respected. Returns None when some
    fragment is not closed."""
    out = []
    i = 0
    n = len(s)
    closers = {"(": ")", "[": "]", "{": "}"}

    def match(i):  # s[i] is an opener; index of the matching closer
        stack = [closers[s[i]]]
        j = i + 1
        while j < n:
            c = s[j]
            if c in "\"'":
                j = _skip_string(s, j)
                if j is None:
                    return None
                continue
            if c == "`":
                k = s.find("`", j + 1)
                if k < 0:
                    return None
                j = k + 1
                continue
            if c in closers:
                stack.append(closers[c])
            elif c in ")]}":
                if c != stack[-1]:
                    return None
                stack.pop()
                if not stack:
                    return j
            j += 1
        return None

    while i < n:
        c = s[i]
        if c == "`":
            k = s.find("`", i + 1)
            if k < 0:
                return None
            i = k + 1
        elif c in "\"'":
            k = _skip_string(s, i)
            if k is None:
                return None
            i = k
        elif c == "{":
            k = match(i)
            if k is None:
                return None
            out.append(s[i + 1 : k])
            i = k + 1
        elif c in "([" and i > 0 and re.match(r"[\w.]", s[i - 1]):
            j = i
            while j > 0 and re.match(r"[\w.]", s[j - 1]):
                j -= 1
            if re.fullmatch(r"[0-9.]*", s[j:i]):
                i += 1  # a number followed by a bracket is grouping, not a call
                continue
            k = match(i)
            if k is None:
                return None
            # chained calls / subscripts belong to the same fragment
            while k + 1 < n and s[k + 1] in "([":
                k2 = match(k + 1)
                if k2 is None:
                    return None
                k = k2
            out.append(s[j : k + 1])
            i = k + 1
        else:
            i += 1
    return out


def judge_syntax_error(s):
    """-> (verdict, info). verdict: 'legit' | 'cut-inside-string-literal' | 'cut-at-nested-bracket'
    | 'violation'."""
    frags = tokenizer_fragments(s)
    invalid = [f for f in frags if not valid_python(f)]
    if not invalid:
        return "violation", {"fragments": frags}
    uf = user_fragments(s)
    if uf:
        # the tokenizer's (invalid) fragment is a proper prefix of a valid fragment as written:
        # it was cut at a closer that sits inside a string literal / nested bracket
        causes = set()
        for t in invalid:
            longer = [r for r in uf if r.startswith(t) and len(r) > len(t) and valid_python(r)]
            if not longer:
                causes = None
                break
            in_string = any(_inside_string(longer[0], len(t)) for _ in (0,))
            causes.add("cut-inside-string-literal" if in_string else "cut-at-nested-bracket")
        if causes:
            return sorted(causes)[0], {"tokenizer_fragments": frags, "reader_fragments": uf}
    return "legit", {}


def _inside_string(code, pos):
    """Is index `pos` of `code` inside a Python string literal?"""
    i = 0
    while i < len(code):
        if code[i] in "\"'":
            j = _skip_string(code, i)
            if j is None or pos < j:
                return pos > i
            i = j
        else:
            if i >= pos:
                return False
            i += 1
    return False


# --------------------------------------------------------------------------------------
def features_used(x, out=None):
    """Which optional features a returned structure exhibits."""
    out = set() if out is None else out
    st = getattr(x, "_structure", None)
    if st is None:
        return out
    if "lhs" in st or "rhs" in st:
        out.add("two-sided")
    if "deps" in st:
        out.add("multi-stage")
    for v in st.values():
        _walk(v, out)
    return out


def _walk(v, out):
    if isinstance(v, tuple):
        if not (len(v) and all(hasattr(x, "_structure") for x in v)):
            out.add("multi-part")
        for x in v:
            _walk(x, out)
    elif hasattr(v, "_structure"):
        features_used(v, out)


def site_of(exc):
    """Innermost frame inside the library (label only)."""
    frames = [(fr.filename, fr.name) for fr in traceback.extract_tb(exc.__traceback__) if "/formulaic/" in fr.filename]
    if not frames:
        return "?"
    fname, name = frames[-1]
    if name.startswith("<"):
        named = [n for f, n in frames if f == fname and not n.startswith("<")]
        if named:
            return f"{named[-1]}.{name}"
    return name


REPRO = '''from formulaic.parser import DefaultFormulaParser
from formulaic.errors import FormulaParsingError
parser = {psrc}
s = {s!r}
try:
    parser.get_terms(s)
    outcome = "returned"
except FormulaParsingError:
    outcome = "parsing-error"
except SyntaxError:
    outcome = "SyntaxError"
except Exception as e:
    outcome = type(e).__name__
assert outcome in {allowed!r}, (s, outcome)
'''


class Acc:
    def __init__(self):
        self.n = 0
        self.keys = set()
        self.samples = []
        self.failures = []
        self.counts = {}
        self.outcomes = {}

    def fail(self, clause, cls, witness, detail):
        k = (clause, cls)
        self.counts[k] = self.counts.get(k, 0) + 1
        if self.counts[k] <= MAX_WITNESS_PER_CLASS:
            w = dict(witness)
            w["cls"] = cls
            self.failures.append((clause, w, detail))

    def result(self):
        return (self.n, self.keys, self.samples, self.failures, self.counts, self.outcomes)


def guarded(parser, s, timeout):
    """-> ('returned', value) | ('raised', exc) | ('timeout', None)"""
    signal.setitimer(signal.ITIMER_REAL, timeout)
    try:
        try:
            r = parser.get_terms(s)
            return ("returned", r)
        except _Timeout:
            return ("timeout", None)
        except Exception as e:  # outcome of the code under test
            return ("raised", e)
    except _Timeout:
        return ("timeout", None)
    finally:
        signal.setitimer(signal.ITIMER_REAL, 0)


def check_string(acc, s, report_timeouts=True):
    """One string, judged; an exception in the judging code is a violation of the clause, not a crash."""
    try:
        _check_string(acc, s, report_timeouts)
    except Exception as e:
        w = {"formula": s, "config": "all", "exception": f"{type(e).__name__}: {e}"[:300],
             "code": "from vf.bounded import c14\nc14._init()\nacc = c14.Acc()\nc14._check_string(acc, %r, %r)\nassert not acc.failures, acc.failures[:1]\n" % (s, report_timeouts)}
        acc.fail("C14.oracle", f"oracle-not-applicable:{type(e).__name__}", w, f"judging get_terms({s!r}) raised {type(e).__name__}: {e}"[:400])


def _check_string(acc, s, report_timeouts=True):
    from formulaic.errors import FormulaParsingError

    used_by_cfg = {}
    for cfg in CONFIGS:
        parser = get_parser(cfg)
        out = guarded(parser, s, PARSE_TIMEOUT_S)
        if out[0] == "timeout":
            out = guarded(parser, s, 60.0)
        acc.n += 1
        kind = out[0]
        nontrivial = True
        if kind == "returned":
            oc = "returned"
            used_by_cfg[cfg[0]] = features_used(out[1])
        elif kind == "timeout":
            oc = "timeout"
            if report_timeouts:
                w = {"formula": s, "config": cfg[0], "code": REPRO.format(psrc=parser_src(cfg), s=s, allowed=["returned", "parsing-error", "SyntaxError"])}
                acc.fail("C14.terminates", "no-result-within-60s", w, f"get_terms({s!r}) did not finish within 60 s")
        else:
            e = out[1]
            if isinstance(e, FormulaParsingError):
                oc = "parsing-error"
            elif isinstance(e, SyntaxError):
                verdict, info = judge_syntax_error(s)
                oc = f"SyntaxError/{verdict}"
                if verdict != "legit":
                    if verdict == "violation":
                        clause, cls = "C14.raises.syntaxerror", f"syntaxerror-without-invalid-python-fragment@{site_of(e)}"
                        detail = f"get_terms({s!r}) raised SyntaxError although every Python fragment the tokenizer delimits is valid Python: {info}"
                    else:
                        clause, cls = "C14.raises.syntaxerror", f"syntaxerror-valid-fragment-{verdict}"
                        detail = (
                            f"get_terms({s!r}) raised SyntaxError; the fragment as written ({info['reader_fragments']}) is valid Python, "
                            f"the tokenizer ended it early ({info['tokenizer_fragments']}): {verdict}"
                        )
                    w = {"formula": s, "config": cfg[0], "exception": f"SyntaxError: {e}"[:200], "code": REPRO.format(psrc=parser_src(cfg), s=s, allowed=["returned", "parsing-error"])}
                    w.update(info)
                    acc.fail(clause, cls, w, detail)
            elif isinstance(e, (RecursionError, MemoryError)):
                # interpreter resource limits on very long inputs (e.g. 400 chained calls inside one
                # Python fragment): recorded in the outcome histogram, not judged
                oc = f"resource-limit:{type(e).__name__}@{site_of(e)}"
            else:
                name = type(e).__name__
                site = site_of(e)
                oc = f"{name}@{site}"
                w = {
                    "formula": s,
                    "config": cfg[0],
                    "exception": f"{name}: {e}"[:200],
                    "site": site,
                    "code": REPRO.format(psrc=parser_src(cfg), s=s, allowed=["returned", "parsing-error", "SyntaxError"]),
                }
                acc.fail("C14.raises.internal", f"{name}@{site}", w, f"get_terms({s!r}) [{cfg[0]}] let {name} escape from {site}(): {e}"[:400])
        acc.outcomes[oc] = acc.outcomes.get(oc, 0) + 1
        if nontrivial:
            acc.keys.add(_digest((s, cfg[0])))
        if len(acc.samples) < 3 and kind == "raised":
            acc.samples.append({"string": s, "config": cfg[0], "outcome": oc})
    # disabled operators: a feature some configuration used must be rejected wherever it is off
    all_used = set().union(*used_by_cfg.values()) if used_by_cfg else set()
    for cfg in CONFIGS:
        if cfg[0] not in used_by_cfg:
            continue
        enabled = {FEATURE_OF_FLAG[f] for f in cfg[2]}
        own = used_by_cfg[cfg[0]]
        bad = (own - enabled) or (all_used - enabled)
        if bad:
            w = {
                "formula": s,
                "config": cfg[0],
                "features_disabled_but_used": sorted(bad),
                "code": REPRO.format(psrc=parser_src(cfg), s=s, allowed=["parsing-error"]),
            }
            cls = "disabled-feature-in-result" if own - enabled else "string-using-disabled-feature-not-rejected"
            acc.fail("C14.flags.disabled-rejected", cls, w, f"{s!r} uses {sorted(bad)} (disabled in configuration {cfg[0]}) but was not rejected there")


# --------------------------------------------------------------------------------------
# workers
# --------------------------------------------------------------------------------------
ALPHABETS = {
    "full": E.TOKEN_ALPHABET,
    "core": E.TOKEN_ALPHABET_CORE,
    "mini": ("a", "(", ")", "0", "**", "/", "-", ":"),
    "quote": ("a", "{", "}", "f(", ")", '"', "'", "`", "\n\t"),
}


def _init():
    import warnings

    warnings.filterwarnings("ignore", category=SyntaxWarning)
    signal.signal(signal.SIGALRM, _alarm)


def w_tokens(args):
    alpha, length, shard, nshards = args
    acc = Acc()
    for s in E.token_strings_shard(ALPHABETS[alpha], length, shard, nshards):
        check_string(acc, s)
    return ("token-strings", acc.result())


def w_random(args):
    seed, count, maxlen = args
    acc = Acc()
    for s in E.random_char_strings(seed, count, maxlen):
        check_string(acc, s)
    return ("random-characters", acc.result())


def w_repeat(args):
    shard, nshards, reps = args
    acc = Acc()
    alpha = E.TOKEN_ALPHABET
    i = 0
    units = list(alpha) + [a + b for a in alpha for b in alpha]
    for u in units:
        i += 1
        if i % nshards != shard:
            continue
        for r in reps:
            for s in (u * r, u * r + "a", "a" + u * r + "a"):
                check_string(acc, s, report_timeouts=False)
    return ("repetitions", acc.result())


# ---- histories: used, re-configured, used again ---------------------------------------------
FLAG_SUBSETS = [tuple(sorted(c)) for r in range(4) for c in __import__("itertools").combinations(("MULTIPART", "MULTISTAGE", "TWOSIDED"), r)]
HISTORY_PROBES = (
    "a", "a + b:c", "~ x", "y ~ x", "y ~ x + z", "x | z", "a | b | c", "y ~ x | z", "y | w ~ x", "y | w ~ x | z", "~ x | z",
    "[a ~ b]", "y ~ [a ~ b]", "y ~ [a ~ b] + c", "y ~ [a ~ b | c]", "[a ~ b] | c", "y ~ [a + b ~ c] | d",
    "(a ~ b)", "a ~ b ~ c", "y ~ (x | z)", "a | ~ b", "[a]", "[a | b]", "y ~ x | [a ~ b]",
)

HISTORY_REPRO = '''from formulaic.parser import DefaultFormulaParser
from formulaic.parser.parser import DefaultOperatorResolver
from formulaic.errors import FormulaParsingError
FF = DefaultFormulaParser.FeatureFlags
def flags(names):
    v = FF.NONE
    for n in names:
        v |= getattr(FF, n)
    return v
def outcome(parser, s):
    try:
        return ("returned", repr(parser.get_terms(s)))
    except FormulaParsingError:
        return ("parsing-error",)
    except Exception as e:
        return (type(e).__name__,)
before, after, scenario, warmup, s = {before!r}, {after!r}, {scenario!r}, {warmup!r}, {s!r}
if scenario == "parser.set_feature_flags":
    parser = DefaultFormulaParser(include_intercept={intercept!r}, feature_flags=flags(before))
    for w in warmup: outcome(parser, w)
    parser.set_feature_flags(flags(after))
elif scenario == "resolver.set_feature_flags":
    parser = DefaultFormulaParser(include_intercept={intercept!r}, feature_flags=flags(before))
    for w in warmup: outcome(parser, w)
    parser.operator_resolver.set_feature_flags(flags(after))
else:  # a used resolver handed to a new parser
    old = DefaultFormulaParser(include_intercept={intercept!r}, feature_flags=flags(before))
    for w in warmup: outcome(old, w)
    parser = DefaultFormulaParser(operator_resolver=old.operator_resolver, include_intercept={intercept!r}, feature_flags=flags(after))
fresh = DefaultFormulaParser(include_intercept={intercept!r}, feature_flags=flags(after))
assert outcome(parser, s) == outcome(fresh, s), (s, outcome(parser, s), outcome(fresh, s))
'''


def _flags_value(names):
    from formulaic.parser import DefaultFormulaParser

    FF = DefaultFormulaParser.FeatureFlags
    v = FF.NONE
    for n in names:
        v |= getattr(FF, n)
    return v


def _outcome_sig(parser, s):
    from formulaic.errors import FormulaParsingError

    out = guarded(parser, s, PARSE_TIMEOUT_S)
    if out[0] == "returned":
        return ("returned", repr(out[1]))
    if out[0] == "timeout":
        return ("timeout",)
    if isinstance(out[1], FormulaParsingError):
        return ("parsing-error",)
    return (type(out[1]).__name__,)


def w_histories(args):
    """A parser / resolver that has been used, is re-configured, and is used again must behave
    like a freshly built parser with the new flags (in particular: newly disabled operators are
    rejected), for every ordered pair of feature-flag subsets."""
    shard, nshards = args
    from formulaic.parser import DefaultFormulaParser

    acc = Acc()
    i = 0
    for before in FLAG_SUBSETS:
        for after in FLAG_SUBSETS:
            for scenario in ("parser.set_feature_flags", "resolver.set_feature_flags", "used-resolver-in-new-parser"):
                for intercept in (True, False):
                    i += 1
                    if i % nshards != shard:
                        continue
                    try:
                        _history_case(acc, before, after, scenario, intercept)
                    except Exception as e:  # building / re-configuring the parsers, or judging, raised
                        w = {"formula": "<history>", "config": f"{scenario}: {list(before)} -> {list(after)}, include_intercept={intercept}", "exception": f"{type(e).__name__}: {e}"[:300],
                             "code": "from vf.bounded import c14\nc14._init()\nacc = c14.Acc()\nc14._history_case(acc, %r, %r, %r, %r)\nassert not acc.failures, acc.failures[:1]\n" % (before, after, scenario, intercept)}
                        acc.fail("C14.flags.history", f"oracle-not-applicable:{type(e).__name__}", w, f"history {scenario} {list(before)} -> {list(after)} raised {type(e).__name__}: {e}"[:400])
    return ("flag-histories", acc.result())


def _history_case(acc, before, after, scenario, intercept):
    from formulaic.parser import DefaultFormulaParser

    if True:
        if True:
            if True:
                if True:
                    fresh = DefaultFormulaParser(include_intercept=intercept, feature_flags=_flags_value(after))
                    old = DefaultFormulaParser(include_intercept=intercept, feature_flags=_flags_value(before))
                    for w in HISTORY_PROBES:
                        _outcome_sig(old, w)
                    if scenario == "parser.set_feature_flags":
                        parser = old.set_feature_flags(_flags_value(after))
                    elif scenario == "resolver.set_feature_flags":
                        old.operator_resolver.set_feature_flags(_flags_value(after))
                        parser = old
                    else:
                        parser = DefaultFormulaParser(operator_resolver=old.operator_resolver, include_intercept=intercept, feature_flags=_flags_value(after))
                    rel = "same" if before == after else ("narrowed" if set(after) < set(before) else ("widened" if set(after) > set(before) else "changed"))
                    for s in HISTORY_PROBES:
                        got, exp = _outcome_sig(parser, s), _outcome_sig(fresh, s)
                        acc.n += 1
                        acc.keys.add(_digest((before, after, scenario, intercept, s)))
                        if len(acc.samples) < 2:
                            acc.samples.append({"flags_before": list(before), "flags_after": list(after), "scenario": scenario, "string": s, "outcome": list(exp)[:1]})
                        if got != exp:
                            w = {
                                "formula": s,
                                "config": f"{scenario}: {list(before)} -> {list(after)}, include_intercept={intercept}",
                                "flags_before": list(before),
                                "flags_after": list(after),
                                "scenario": scenario,
                                "observed": list(got),
                                "fresh_parser": list(exp),
                                "code": HISTORY_REPRO.format(before=list(before), after=list(after), scenario=scenario, warmup=list(HISTORY_PROBES), s=s, intercept=intercept),
                            }
                            kind = "disabled-operator-still-accepted" if got[0] == "returned" and exp[0] == "parsing-error" else ("enabled-operator-still-rejected" if exp[0] == "returned" and got[0] == "parsing-error" else "differs")
                            acc.fail("C14.flags.history", f"{scenario}/{rel}/{kind}", w, f"after {scenario} {list(before)} -> {list(after)} (parser used before), get_terms({s!r}) gives {got} but a fresh parser with the new flags gives {exp}")


# ---- valid Python of richer AST shapes in every position --------------------------------------
def rich_fragments():
    """(code, forms): valid Python expressions; 'brace' when the text holds no brace, 'call' when
    it has the documented call shape name(...)... and ends with a closing bracket."""
    primaries = ["y", "(y1 + y2)", "y['a']", "y[0]", "f(y)", "np.log(y)", "[y, z]", "(y, z)", "(lambda v: v + 1)", "scalers[0]", "y.a", "'s'", "(-y)", "(y if z else w)"]
    postfix = [".abs()", ".a", "[0]", "['k']", "(z)", "(y)", ".m(z, k=1)", "[1:2]", ".T"]
    codes = []
    for p in primaries:
        for q in postfix:
            codes.append(p + q)
            for q2 in (".cumsum()", "[0]", "(w)", ".b"):
                codes.append(p + q + q2)
    codes += [
        "lambda v: v", "(lambda: y)()", "[v for v in y]", "[v for v in y if v > 0]", "sum(v for v in y)", "list(v + w for v in y for w in z)",
        "y if z else w", "f(*y)", "f(**kw)", "f(y, *z, k=1, **kw)", "f(y)(z)(w)", "f(lambda v: v + 1, y)", "f(y if z else w)", "f(y)[g(z)]",
        "f(f'{y}')", "f(f'{y:>{w}}')", "f(y, 'a b')", "f(b'x', 1j, 0x10, 1e-3, ...)", "y[...]", "y[::2, 1:]", "y[z > 0]", "y[(z > 0) & (w < 1)]",
        "not y", "-y", "+y", "~y", "y ** 2", "y @ z", "y // z", "y % z", "y << 1", "y & z", "y ^ z", "y < z <= w", "y is not None", "y in z", "y not in (1, 2)",
        "(v := y)", "f((v := y))", "y and z or w", "[*y, *z]", "f([*y])", "(yield_ := y)", "y.str.len()", "y.astype('float').fillna(0)", "np.where(y > 0, y, 0)",
        "f({'k': y})", "f({v for v in y})", "f({k: v for k, v in y})", "f(y)[{1: 0}[1]]", "C(y, contr.treatment(base='a'))", "f(\"a\", 'b')",
    ]
    out = []
    for code in dict.fromkeys(codes):
        try:
            tree = ast.parse(code, mode="eval")
        except SyntaxError:
            raise AssertionError(f"driver bug: {code!r} is not valid Python")
        forms = []
        if "{" not in code and "}" not in code:
            forms.append("{" + code + "}")
        if re.match(r"[A-Za-z_][\w.]*\(", code) and code[-1] in ")]" and isinstance(tree.body, (ast.Call, ast.Subscript)) and not re.search(r"[)\]]\s*\.", code):
            forms.append(code)
        out.append((code, forms))
    return out


FRAGMENT_CONTEXTS = ("{F}", "{F} ~ x", "y ~ {F}", "{F} + x ~ z", "x + {F} ~ z", "{F}:x ~ z", "y | {F} ~ x", "{F} | y ~ x", "y ~ x | {F}", "({F}):x", "x:{F}", "-{F}", "({F} + x) ~ z", "{F} ~ {F}", "~ {F}", "[{F} ~ x]", "y ~ [{F} ~ x]")


def w_fragments(args):
    shard, nshards = args
    acc = Acc()
    i = 0
    for code, forms in rich_fragments():
        for form in forms:
            for tmpl in FRAGMENT_CONTEXTS:
                i += 1
                if i % nshards != shard:
                    continue
                check_string(acc, tmpl.replace("{F}", form))
    return ("python-fragments", acc.result())


WORKER_DRIVER = {"w_dot_context": "dot-with-context", "w_tokens": "token-strings", "w_random": "random-characters", "w_repeat": "repetitions", "w_histories": "flag-histories", "w_fragments": "python-fragments"}


# ---- the wildcard `.` with the variables-available context --------------------------------------
DOT_REPRO = '''from formulaic.parser import DefaultFormulaParser
from formulaic.errors import FormulaParsingError
from formulaic.utils.layered_mapping import LayeredMapping
parser = {psrc}
s = {s!r}
context = {ctxsrc}
try:
    parser.get_terms(s, context=context)
    outcome = "returned"
except FormulaParsingError:
    outcome = "parsing-error"
except SyntaxError:
    outcome = "SyntaxError"
except Exception as e:
    outcome = type(e).__name__
assert outcome in ("returned", "parsing-error"), (s, outcome)
'''
DOT_CONTEXTS = (
    ("available-list", "{'__formulaic_variables_available__': ['a', 'b', 'y']}"),
    ("available-empty", "{'__formulaic_variables_available__': []}"),
    ("data-layer", "LayeredMapping(LayeredMapping({'a': 1, 'b': 2, 'y': 3, 'c': 4}, name='data'))"),
)


def dot_formulas():
    dots = [".", "2:.", ".:2", ".**2", "(.)", "-.", ".:a", ".*a", "a/.", "./a", ". %in% a", ".:.", ". - a"]
    extras = ["2:a", "2.5:a", "0.5:b + a", "2:a + 2:b", "2:a + 3:a", '"s"', '"s":a', "2.5", "a", "a:b", "3:a:b", "1", "0", "f(a)", "`a`"]
    for d in dots:
        for x in extras:
            for tmpl in ("{x} + {d}", "{d} + {x}", "y ~ {x} + {d}", "y ~ {d} - {x}", "{x} ~ {d}", "y ~ {x} | {d}", "y ~ ({x}):({d})"):
                yield tmpl.format(x=x, d=d)


def w_dot_context(args):
    shard, nshards = args
    from formulaic.errors import FormulaParsingError
    from formulaic.utils.layered_mapping import LayeredMapping  # noqa: F401 (used by eval of the context source)

    acc = Acc()
    for i, s in enumerate(dict.fromkeys(dot_formulas())):
        if i % nshards != shard:
            continue
        for cname, ctxsrc in DOT_CONTEXTS:
            for cfg in CONFIGS:
                acc.n += 1
                acc.keys.add(_digest((s, cname, cfg[0])))
                try:
                    parser = get_parser(cfg)
                    ctx = eval(ctxsrc)
                    signal.setitimer(signal.ITIMER_REAL, PARSE_TIMEOUT_S)
                    try:
                        parser.get_terms(s, context=ctx)
                        oc = "returned"
                    finally:
                        signal.setitimer(signal.ITIMER_REAL, 0)
                except FormulaParsingError:
                    oc = "parsing-error"
                except _Timeout:
                    oc = "timeout"
                except Exception as e:  # outcome of the code under test
                    site = site_of(e)
                    oc = f"{type(e).__name__}@{site}"
                    w = {"formula": s, "config": f"{cfg[0]}, context={cname}", "exception": f"{type(e).__name__}: {e}"[:200], "site": site,
                         "code": DOT_REPRO.format(psrc=parser_src(cfg), s=s, ctxsrc=ctxsrc)}
                    acc.fail("C14.raises.internal", f"{type(e).__name__}@{site}/dot-with-context", w, f"get_terms({s!r}, context={cname}) [{cfg[0]}] let {type(e).__name__} escape from {site}(): {e}"[:400])
                acc.outcomes[oc] = acc.outcomes.get(oc, 0) + 1
    return ("dot-with-context", acc.result())


def _run(task):
    from .c01 import run_task_safely

    return run_task_safely(task, "c14", WORKER_DRIVER, "C14.driver.worker", n_result=6)


def run_bounded(ctx):
    th = ctx.thorough
    tasks = []
    # exhaustive scopes: (alphabet, max length)
    scopes = [("full", 4 if th else 3), ("core", 5 if th else 4), ("mini", 6 if th else 5), ("quote", 6 if th else 5)]
    for alpha, lmax in scopes:
        n = len(ALPHABETS[alpha])
        for length in range(0, lmax + 1):
            total = n**length
            nsh = max(1, min(256, total // 4000))
            for sh in range(nsh):
                tasks.append((w_tokens, (alpha, length, sh, nsh)))
    nrand = 600000 if th else 60000
    for sh in range(32):
        tasks.append((w_random, (ctx.seed * 7919 + sh, nrand // 32, 12)))
    for sh in range(16):
        tasks.append((w_repeat, (sh, 16, (40, 400) if th else (40,))))
    for sh in range(8):
        tasks.append((w_histories, (sh, 8)))
    for sh in range(8):
        tasks.append((w_fragments, (sh, 8)))
    for sh in range(4):
        tasks.append((w_dot_context, (sh, 4)))
    tasks.sort(key=lambda t: 0 if t[0] is w_repeat else 1)  # longest tasks first

    scope_txt = "; ".join(f"{len(ALPHABETS[a])}-token alphabet '{a}' up to {l} tokens" for a, l in scopes)
    bs = {
        "token-strings": ctx.bounded(
            "token-strings",
            rule="every concatenation of alphabet tokens (names, both bracket kinds, every operator, 0 1 2.5, quoted/brace/call fragments "
            "incl. empty and malformed ones, lone quotes, backslash, %, space, a non-ASCII letter) x 3 parser configurations; "
            "distinct = (string, configuration)",
            exhaustive=True,
            bound=scope_txt,
        ),
        "random-characters": ctx.bounded("random-characters", rule="seeded random strings over a 35-character pool, length <= 12, x 3 configurations", exhaustive=False, bound=f"{nrand} strings, seed {ctx.seed}"),
        "flag-histories": ctx.bounded(
            "flag-histories",
            rule="a parser is built with flag subset A and used on 24 probe formulas, then re-configured to subset B by (i) parser.set_feature_flags, "
            "(ii) operator_resolver.set_feature_flags, or (iii) handing its used resolver to a new parser with B; every probe must then behave "
            "exactly like a fresh parser with B (accept/reject and returned terms); all 64 ordered pairs (A, B) x 3 scenarios x intercept",
            exhaustive=True,
            bound="8 x 8 flag subsets, 24 probes",
        ),
        "dot-with-context": ctx.bounded(
            "dot-with-context",
            rule="13 uses of the wildcard `.` x 15 companions (numeric scalings repeated with another multiplier, string literals, bare literals, names, calls) "
            "x 7 formula shapes, parsed WITH the available-variables context (list, empty list, LayeredMapping data layer) x 3 configurations: "
            "returns or raises the parsing error",
            exhaustive=True,
            bound="see rule",
        ),
        "python-fragments": ctx.bounded(
            "python-fragments",
            rule="valid Python expressions of many AST shapes (attribute / call / subscript chains on names, parenthesised expressions, subscripts, calls, "
            "lambdas, literals; comprehensions, conditional expressions, starred and keyword arguments, f-strings, walrus, operators) in brace form and, "
            "where the text has the name(...) shape, call form, in 17 positions (alone, left and right of ~, in sums, interactions, | parts, "
            "parentheses, multistage brackets) x 3 configurations; same oracle as token-strings",
            exhaustive=False,
            bound="see rule",
        ),
        "repetitions": ctx.bounded("repetitions", rule="every alphabet token and token pair repeated k times (bare, followed by a name, between names): exception types only", exhaustive=True, bound="k in " + ("(40, 400)" if th else "(40,)")),
    }
    totals, outcomes, found = {}, {}, {}
    t0 = time.time()
    with ProcessPoolExecutor(NPROC, initializer=_init) as pool:
        for name, (n, keys, samples, failures, counts, ocs) in pool.map(_run, tasks, chunksize=1):
            b = bs[name]
            b.add_counts(n, keys, samples)
            for k, c in counts.items():
                totals[k] = totals.get(k, 0) + c
            for k, c in ocs.items():
                outcomes[k] = outcomes.get(k, 0) + c
            for clause, w, detail in failures:
                found.setdefault((clause, w["cls"]), []).append((len(w["formula"]), w["formula"], w["config"], name, w, detail))
    # report the (at most 5) shortest witnesses of every class
    for (clause, cls), lst in sorted(found.items()):
        lst.sort(key=lambda x: x[:3])
        for _, _, _, name, w, detail in lst[:5]:
            bs[name].fail(clause, w, detail)
    for b in bs.values():
        b.wall = time.time() - t0
    ctx.notes.append({"C14 outcome histogram": dict(sorted(outcomes.items()))})
    if totals:
        ctx.notes.append({"C14 bounded failure counts": {f"{k[0]} [{k[1]}]": v for k, v in sorted(totals.items())}})
    if not ctx.explanation:
        # only when no deductive module has described the run (vf/proofs is written separately)
        ctx.explanation = "bounded stand-in only in this run: exception-safety/termination of the parse path observed on every string over a token alphabet up to a length bound (bounded), not proved"
    ctx.assume(
        "A-C14-syntaxerror: a plain SyntaxError is accepted iff some Python-kind token, as the library's tokenizer delimits it, is not a valid "
        "Python expression (backtick-quoted names counted as identifiers); when the fragment as written is valid once string literals are "
        "respected it is reported under its own class",
        "A-C14-resource: RecursionError / MemoryError (CPython limits inside ast.parse/ast.unparse on very long fragments) are counted, not judged",
        f"A-C14-timeout: 'terminates' is observed as 'finishes within {PARSE_TIMEOUT_S:.0f} s, re-tried with 60 s'",
    )
