"""Shared helpers for the bounded drivers of C06 / C07 (null handling, multi-part formulas).

Everything here is oracle-side: frames are built from a small description, factor values are
recomputed by evaluating the factor expression stand-alone (public transform functions, plain
`eval`), nulls are found with `pandas.isna`; nothing reads the materializer's own bookkeeping.

Single source of truth for inputs: every frame / formula spec / entry-point call is generated as
*source text* which the driver `exec`s; the very same text goes into the stand-alone repro.
"""
from __future__ import annotations

import concurrent.futures as cf
import hashlib
import re
import warnings
from collections import Counter

import numpy as np
import pandas as pd

MAX_REPORTED_PER_CLASS = 4

PRELUDE = (
    "import warnings; warnings.simplefilter('ignore')\n"
    "import numpy as np, pandas as pd, scipy.sparse\n"
    "import formulaic, formulaic.materializers\n"
    "from formulaic import Formula, ModelSpec, ModelSpecs, model_matrix\n"
)


def khash(key):
    """Same digest as vf.core.Bounded.case, so that worker-side keys merge via add_counts."""
    return hashlib.blake2b(repr(key).encode(), digest_size=8).digest()


# --------------------------------------------------------------------------- frames

TEXT_DTYPES = ("object", "category", "str")
# text dtype / numeric dtype combinations drawn by the C06 cross driver
FRAME_DTYPES = ("object", "category", "str", "object/Int64", "category/Float64")
INDEX_KINDS = ("range", "str", "dup-str", "dup-int", "perm-int", "multi", "multi-dup")


def index_code(kind, n):
    if kind == "range":
        return None
    if kind == "str":
        return repr([f"r{i}" for i in range(n)])
    if kind == "dup-str":
        return repr(["p", "p", "q", "q", "p", "r", "r", "p"][:n])
    if kind == "dup-int":
        # duplicates that also collide with row positions
        return repr([1, 1, 0, 0, 1, 2, 2, 0][:n])
    if kind == "perm-int":
        # a permutation of the positions: labels are valid positions but of *other* rows
        return repr([(i + 1) % n for i in range(n)][::-1])
    if kind == "multi":
        return "pd.MultiIndex.from_tuples(%r)" % ([("g%d" % (i // 2), (i * 7) % 5) for i in range(n)],)
    if kind == "multi-dup":
        return "pd.MultiIndex.from_tuples(%r)" % ([("g%d" % (i // 3), 0) for i in range(n)],)
    raise ValueError(kind)


def index_is_unique(kind, n):
    if kind in ("range", "str", "perm-int", "multi"):
        return True
    return n < 2


def _lit(values):
    return "[" + ", ".join("None" if v is None else repr(v) for v in values) + "]"


def column_values(n, masks, integral=False):
    """masks: dict col -> bitmask of null rows.  Values are distinct per row in the numeric
    columns, so a numeric column pins down which input row an output row came from.
    integral: whole numbers (for nullable integer dtypes)."""
    out = {}
    for col, m in masks.items():
        if col in ("x", "z"):
            base = (2 if col == "x" else 100) if integral else (1.5 if col == "x" else 100.25)
            out[col] = [None if (m >> i) & 1 else i + base for i in range(n)]
        elif col == "y":
            out[col] = [None if (m >> i) & 1 else (10 * (i + 1) if integral else 10.0 * (i + 1) + 0.25) for i in range(n)]
        elif col in ("A", "B"):
            lv = "abc" if col == "A" else "uv"
            out[col] = [None if (m >> i) & 1 else lv[i % len(lv)] for i in range(n)]
        else:
            raise ValueError(col)
    return out


def frame_code(n, masks, index_kind="range", text_dtype="object", name="df"):
    """text_dtype: 'object' | 'category' | 'str', optionally followed by '/<numeric dtype>' for the numeric
    columns ('float64' default; 'Int64' / 'Float64' = pandas nullable extension dtypes holding pd.NA)."""
    text_dtype, _, num_dtype = text_dtype.partition("/")
    num_dtype = num_dtype or "float64"
    vals = column_values(n, masks, integral=num_dtype.lower().startswith(("int", "uint")))
    lines = [f"{name} = pd.DataFrame({{"]
    for col, v in vals.items():
        if col in ("A", "B"):
            lines.append(f"    {col!r}: pd.Series({_lit(v)}, dtype=object),")
        else:
            lines.append(f"    {col!r}: pd.Series({_lit(v)}, dtype={num_dtype!r}),")
    lines.append("})")
    for col in vals:
        if col in ("A", "B"):
            lv = ["a", "b", "c"] if col == "A" else ["u", "v"]
            if text_dtype == "category":
                lines.append(f"{name}[{col!r}] = pd.Categorical({name}[{col!r}], categories={lv!r})")
            elif text_dtype == "str":
                lines.append(f"{name}[{col!r}] = {name}[{col!r}].astype('str')")
            elif text_dtype != "object":
                raise ValueError(text_dtype)
    ic = index_code(index_kind, n)
    if ic is not None:
        lines.append(f"{name}.index = {ic}")
    return "\n".join(lines) + "\n"


_FRAME_CACHE = {}


def build(code, name="df"):
    """exec a frame snippet and return the named frame.  Frames are cached per snippet and
    handed out as deep copies, so nothing the code under test does to one leaks into the next."""
    key = (code, name)
    obj = _FRAME_CACHE.get(key)
    if obj is None:
        env = {"pd": pd, "np": np}
        exec(compile(code, "<case>", "exec"), env)
        obj = env[name]
        if len(_FRAME_CACHE) > 50000:
            _FRAME_CACHE.clear()
        _FRAME_CACHE[key] = obj
    return obj.copy(deep=True)


# --------------------------------------------------------------------------- stand-alone factor evaluation


def null_positions(values):
    """Independent null finder (pandas.isna over rows)."""
    v = values
    while hasattr(v, "__wrapped__"):
        v = v.__wrapped__
    if isinstance(v, pd.DataFrame):
        return {int(i) for i in np.flatnonzero(v.isna().to_numpy().any(axis=1))}
    if isinstance(v, pd.Series):
        return {int(i) for i in np.flatnonzero(v.isna().to_numpy())}
    if isinstance(v, dict):
        out = set()
        for k, x in v.items():
            if not (isinstance(k, str) and k.startswith("__")):
                out |= null_positions(x)
        return out
    arr = np.asarray(v)
    if arr.ndim == 0:
        return set()
    mask = pd.isna(arr)
    if arr.ndim == 2:
        mask = mask.any(axis=1)
    return {int(i) for i in np.flatnonzero(mask)}


def eval_factor(expr, df):
    """Value of a factor expression on the full data, evaluated outside any materializer."""
    from formulaic.transforms import TRANSFORMS

    env = dict(TRANSFORMS)
    env.update({c: df[c] for c in df.columns})
    with warnings.catch_warnings():
        warnings.simplefilter("ignore")
        return eval(expr, {"__builtins__": {}}, env)


def unwrap(v):
    while hasattr(v, "__wrapped__"):
        v = v.__wrapped__
    return v


# --------------------------------------------------------------------------- results


def leaves(obj, path=()):
    """All ModelMatrix / ModelSpec leaves of a (possibly nested) Structured result with their
    paths; own recursion (does not rely on Structured._flatten)."""
    from formulaic.utils.structured import Structured

    if isinstance(obj, Structured):
        for k, v in obj._structure.items():
            yield from leaves(v, path + (k,))
    elif isinstance(obj, tuple):
        for i, v in enumerate(obj):
            yield from leaves(v, path + (i,))
    else:
        yield path, obj


def shape_of(obj):
    """Nested shape: 'L' for a leaf, tuple for tuples, sorted (key, shape) pairs for keyed nodes
    (key order is not part of the shape)."""
    from formulaic.utils.structured import Structured

    if isinstance(obj, Structured):
        return ("S",) + tuple(sorted((k, shape_of(v)) for k, v in obj._structure.items()))
    if isinstance(obj, tuple):
        return ("T",) + tuple(shape_of(v) for v in obj)
    return "L"


def dense(m):
    """Plain 2-d numpy array of a model matrix of any output type (object dtype kept)."""
    import scipy.sparse as sp

    w = unwrap(m)
    if sp.issparse(w):
        return np.asarray(w.todense())
    if isinstance(w, pd.DataFrame):
        return w.to_numpy()
    if hasattr(w, "to_numpy"):
        return np.asarray(w.to_numpy())
    if hasattr(w, "to_pandas"):
        return w.to_pandas().to_numpy()
    return np.asarray(w)


def nrows(m):
    w = unwrap(m)
    if hasattr(w, "shape"):
        return int(w.shape[0])
    return len(w)


_CAT_RE = re.compile(r"^(?P<f>.+?)\[(?:T\.)?(?P<lvl>[^\[\]]+)\]$")


def expected_component(comp, df, cache):
    """Expected values over ALL input rows of one ':'-component of a column name, or None when
    the component is not row-local / not recognised (then it is not value-checked).
    Row-local components only: raw numeric columns, np.log(x), indicators of A/B, C(.), hashed(.)."""
    if comp in cache:
        return cache[comp]
    out = None
    if comp == "Intercept":
        out = np.ones(len(df))
    elif comp in df.columns and df[comp].dtype.kind in "iuf":
        out = df[comp].to_numpy(dtype=float, na_value=np.nan)
    elif comp in ("np.log(x)", "np.log(y)", "I(x * 2)"):
        out = np.asarray(unwrap(eval_factor(comp, df)), dtype=float)
    else:
        m = _CAT_RE.match(comp)
        if m:
            f, lvl = m.group("f"), m.group("lvl")
            src = None
            if f in df.columns:
                src = df[f]
            elif re.fullmatch(r"C\((\w+)\)", f) and f[2:-1] in df.columns:
                src = df[f[2:-1]]
            elif f.startswith("hashed("):
                src = pd.Series(np.asarray(unwrap(eval_factor(f, df))))
            if src is not None:
                isnull = src.isna().to_numpy()
                vals = src.astype(object).to_numpy()
                ind = np.array([(not isnull[i]) and str(vals[i]) == lvl for i in range(len(df))], dtype=float)
                ind[isnull] = np.nan  # indicator of a null cell is not specified
                out = ind
    cache[comp] = out
    return out


def expected_column(name, df, cache):
    comps = name.split(":")
    vals = None
    for c in comps:
        e = expected_component(c, df, cache)
        if e is None:
            return None
        vals = e if vals is None else vals * e
    return vals


def check_leaf_rows(m, colnames, df, kept, cache, check_index):
    """Row-identity contract of one output matrix.  Returns list of (clause_suffix, cls, detail)."""
    out = []
    n_out = nrows(m)
    w = unwrap(m)
    if n_out != len(kept):
        zero_cols = getattr(w, "ndim", 2) == 2 and w.shape[1] == 0
        return [("rows-by-position", "row-count-of-zero-column-matrix" if zero_cols else "row-count",
                 f"rows out={n_out} expected={len(kept)} (kept positions {kept})")]
    if check_index and isinstance(w, pd.DataFrame):
        got = list(w.index)
        exp = [df.index[i] for i in kept]
        if got != exp:
            out.append(("index-labels", "index-labels", f"index={got!r} expected={exp!r}"))
    arr = dense(m)
    if colnames is None or arr.ndim != 2 or arr.shape[1] != len(colnames):
        return out
    for j, name in enumerate(colnames):
        exp = expected_column(str(name), df, cache)
        if exp is None:
            continue
        exp = exp[kept] if len(kept) else exp[:0]
        try:
            got = arr[:, j].astype(float)
        except (TypeError, ValueError):
            continue  # non-numeric cell: C08's business, not a row-identity question
        ok = np.isnan(exp) | np.isclose(got, exp, rtol=1e-9, atol=1e-12)
        if not bool(np.all(ok)):
            out.append(("rows-by-position", "row-values",
                        f"column {name!r}: got {got.tolist()} expected {exp.tolist()} (input positions {kept})"))
            break
    return out


# --------------------------------------------------------------------------- reporting / pool


class Reporter:
    """First MAX_REPORTED_PER_CLASS witnesses of every (clause, cls) go to b.fail; all counted."""

    def __init__(self, ctx, b, limit=MAX_REPORTED_PER_CLASS, fallback_clause=None):
        self.ctx, self.b, self.limit = ctx, b, limit
        self.fallback_clause = fallback_clause or (ctx.prop + ".driver.judging")
        self.counts = Counter()

    def fail(self, clause, cls, witness, detail=""):
        clause = clause or self.fallback_clause
        self.counts[(clause, cls)] += 1
        if self.counts[(clause, cls)] <= self.limit:
            w = dict(witness)
            w["cls"] = cls
            self.b.fail(clause=clause, witness=w, detail=detail)

    def absorb(self, failures):
        for f in failures:
            self.fail(f["clause"], f["cls"], f["witness"], f.get("detail", ""))

    def note(self):
        if self.counts:
            self.ctx.notes.append(
                f"bounded:{self.b.name} failing evaluations by (clause, cls): "
                + "; ".join(f"{c} [{k}] x{n}" for (c, k), n in sorted(self.counts.items()))
            )


def oracle_failure(e, clause, what, extra=None):
    """A failure record for an exception raised while a case was being set up or judged (the oracle was fed
    something it cannot digest, or a helper that calls the library raised): reported against the case's
    clause with class oracle-not-applicable:<ExceptionType>; never allowed to end the run."""
    import traceback

    w = {"case": what}
    if extra:
        w.update(extra)
    return {"clause": clause, "cls": f"oracle-not-applicable:{type(e).__name__}", "witness": w,
            "detail": f"{type(e).__name__}: {e}\n" + "".join(traceback.format_exception(type(e), e, e.__traceback__))[-1500:]}


def chunked(seq, size):
    for i in range(0, len(seq), size):
        yield seq[i : i + size]


def _guarded(args):
    """Pool workers hand exceptions back as data."""
    worker, chunk = args
    try:
        return worker(chunk)
    except Exception as e:  # backstop: the workers already guard every case
        return (len(chunk), set(), [], [oracle_failure(e, None, repr(chunk[0])[:600], {"scope": "whole worker chunk"})])


def run_pool(worker, tasks, chunk=200, procs=16):
    """Deterministic fan-out: tasks are chunked in order, results come back in order.  A worker that
    raises, or a pool that breaks (a child died), yields failure records instead of an exception."""
    chunks = list(chunked(tasks, chunk))
    if len(chunks) <= 1:
        return [_guarded((worker, c)) for c in chunks]
    try:
        with cf.ProcessPoolExecutor(min(procs, len(chunks))) as ex:
            return list(ex.map(_guarded, [(worker, c) for c in chunks]))
    except Exception as e:  # BrokenProcessPool and the like
        return [(len(c), set(), [], [oracle_failure(e, None, repr(c[0])[:600], {"scope": "process pool broke"})]) for c in chunks]


def merge(b, rep, results):
    for n_eval, keys, samples, failures in results:
        b.add_counts(n_eval, keys, samples)
        rep.absorb(failures)


class guard:
    """`with guard(ctx, clause, what):` -- last line of defence around a whole driver block: an exception is
    recorded as a violation (class oracle-not-applicable:<Type>) and the run carries on."""

    def __init__(self, ctx, clause, what):
        self.ctx, self.clause, self.what = ctx, clause, what

    def __enter__(self):
        return self

    def __exit__(self, et, ev, tb):
        if et is None or not issubclass(et, Exception):
            return False
        f = oracle_failure(ev, self.clause, self.what)
        w = dict(f["witness"])
        w["cls"] = f["cls"]
        self.ctx.violation(self.clause, w, f["detail"], source="bounded:" + self.what)
        return True
