"""Deterministic generators of small data frames for the model-matrix drivers (C02, C03, C05).

Nothing in here looks at formulaic.  A *frame spec* is a plain json-able dict

    {"n": <rows>,
     "cols": [{"name": "A", "kind": "cat", "flavor": "category"|"object"|"str"|"int64"|"bool",
               "levels": [...level order...], "values": [...]},          # categorical
              {"name": "a", "kind": "num", "dtype": "float"|"int", "values": [...]}]}

from which `build_frame(spec)` makes the pandas frame and `frame_code(spec)` the Python source
that rebuilds exactly the same frame inside a stand-alone witness program.

Level order (the order in which the property statement wants the indicator columns):
  * flavor "category": the order of the pandas categories (deliberately NOT sorted in some frames,
    and possibly containing a level that never occurs in the rows);
  * flavors "object" / "str": the sorted distinct values that occur (pandas' own convention for
    `astype("category")`, the only order such a column has).

Flavors: "category" = pandas.Categorical; "object" = python strings in an object-dtype Series;
"str" = the pandas-3 default string dtype (what `pd.DataFrame({"S": ["p", "q"]})` gives).
"""
from __future__ import annotations

import itertools
import random

import numpy
import pandas

CAT_NAMES = ("A", "B", "D", "E")  # "C" is avoided: it is the name of formulaic's categorical marker
NUM_NAMES = ("a", "b", "c", "d")
# distinct level alphabets per categorical column, deliberately not in sorted order
LEVEL_POOL = {
    "A": ("x", "y", "z", "w"),
    "B": ("u", "v", "t", "s"),
    "D": ("n", "m", "l", "k"),
    "E": ("p", "q", "r", "o"),
}


# --------------------------------------------------------------------------- values
def generic_floats(rng: random.Random, n: int, positive: bool) -> list[float]:
    """n pairwise distinct "generic" values with 3 decimals (no 0, no 1, no repeats)."""
    out: list[float] = []
    while len(out) < n:
        v = round(rng.uniform(0.2, 9.8), 3)
        if not positive and rng.random() < 0.4:
            v = -v
        if v in (0.0, 1.0, -1.0) or any(abs(abs(v) - abs(w)) < 1e-3 for w in out):
            continue
        out.append(v)
    return out


def generic_ints(rng: random.Random, n: int, lo: int = 2, hi: int = 97) -> list[int]:
    """n pairwise distinct integers in [lo, hi] (hi is widened if necessary)."""
    hi = max(hi, lo + 2 * n)
    return rng.sample(range(lo, hi + 1), n)


# --------------------------------------------------------------------------- specs
def cat_col(name, flavor, levels, values):
    return {"name": name, "kind": "cat", "flavor": flavor, "levels": list(levels), "values": list(values)}


def num_col(name, dtype, values):
    return {"name": name, "kind": "num", "dtype": dtype, "values": list(values)}


def level_order(col) -> list:
    """The level order of a categorical column spec as the statement understands it."""
    if col["flavor"] == "category":
        return list(col["levels"])
    return sorted({v for v in col["values"] if v is not None})


def random_frame_spec(rng: random.Random, n: int, cats, nums, nulls: bool = False, sorted_levels=None) -> dict:
    """cats: list of (name, nlevels, flavor); nums: list of (name, dtype).

    Every level occurs at least once when n >= nlevels (otherwise a "category" column keeps the
    unobserved levels in its categories, and an object/str column simply has fewer levels).
    """
    cols = []
    for name, nlev, flavor in cats:
        pool = LEVEL_POOL[name][:nlev]
        levels = list(pool)
        coin = rng.random() < 0.5
        if (coin if sorted_levels is None else not sorted_levels):
            rng.shuffle(levels)  # category order is not the sorted order in general
        else:
            levels = sorted(levels[: max(1, min(nlev, n))])  # sorted and (for n >= nlev) all observed
        vals = [pool[i % nlev] for i in range(n)]
        rng.shuffle(vals)
        cols.append(cat_col(name, flavor, levels, vals))
    for name, dtype in nums:
        if dtype == "int":
            vals = generic_ints(rng, n)
        else:
            vals = generic_floats(rng, n, positive=(name == "b"))
        cols.append(num_col(name, dtype, vals))
    spec = {"n": n, "cols": cols}
    if nulls and n >= 2:
        # one null in the first categorical and one in the first float column, on different rows
        rows = rng.sample(range(n), 2)
        done_cat = done_num = False
        for c in cols:
            if c["kind"] == "cat" and not done_cat:
                c["values"][rows[0]] = None
                done_cat = True
            elif c["kind"] == "num" and c["dtype"] == "float" and not done_num:
                c["values"][rows[1]] = None
                done_num = True
    return spec


def crossed_frame_spec(rng: random.Random, cats, nums, replicates: int, integer: bool = True,
                       shuffle_rows: bool = True) -> dict:
    """Fully crossed design: every combination of levels of `cats` occurs `replicates` times;
    numeric columns get generic pairwise distinct values (integers when `integer`).

    cats: list of (name, nlevels, flavor[, level_labels]); nums: list of names.
    """
    # a 4th tuple element gives the level labels (any hashable python values, in level order)
    level_lists = [list(c[3]) if len(c) > 3 else list(LEVEL_POOL[c[0]][: c[1]]) for c in cats]
    combos = list(itertools.product(*level_lists)) if cats else [()]
    rows = [c for c in combos for _ in range(replicates)]
    if shuffle_rows:
        rng.shuffle(rows)
    n = len(rows)
    cols = []
    for j, c in enumerate(cats):
        cols.append(cat_col(c[0], c[2], level_lists[j], [r[j] for r in rows]))
    for name in nums:
        if integer:
            cols.append(num_col(name, "int", generic_ints(rng, n, 2, 97)))
        else:
            cols.append(num_col(name, "float", generic_floats(rng, n, positive=False)))
    return {"n": n, "cols": cols}


# --------------------------------------------------------------------------- realisation
def build_column(col):
    if col["kind"] == "cat":
        if col["flavor"] == "category":
            return pandas.Categorical(col["values"], categories=col["levels"])
        if col["flavor"] == "object":
            return pandas.Series(col["values"], dtype=object)
        if col["flavor"] == "str":
            return pandas.Series(col["values"], dtype="str")
        if col["flavor"] in ("int64", "bool"):  # plain numpy column; categorical only when written C(name)
            return numpy.array(col["values"], dtype=col["flavor"])
        raise ValueError(col["flavor"])
    if col["dtype"] == "int":
        return numpy.array(col["values"], dtype="int64")
    return numpy.array([numpy.nan if v is None else v for v in col["values"]], dtype="float64")


def build_frame(spec) -> pandas.DataFrame:
    df = pandas.DataFrame({c["name"]: build_column(c) for c in spec["cols"]})
    if spec.get("index") is not None:
        df.index = pandas.Index(spec["index"])
    return df


INDEX_KINDS = ("default", "shuffled", "subset", "strings")


def with_index(spec, kind: str, rng: random.Random) -> dict:
    """Copy of `spec` whose frame carries row labels of the given kind:
    default  = RangeIndex 0..n-1;  shuffled = a permutation of 0..n-1 (not the identity when n >= 2);
    subset   = n distinct labels out of a larger range, in no particular order (a filtered + shuffled frame);
    strings  = string labels in non-sorted order."""
    n = spec["n"]
    out = dict(spec)
    out["index_kind"] = kind
    if kind == "default":
        out["index"] = None
    elif kind == "shuffled":
        labels = list(range(n))
        while n >= 2 and labels == list(range(n)):
            rng.shuffle(labels)
        out["index"] = labels
    elif kind == "subset":
        out["index"] = rng.sample(range(3 * n + 4), n)
    elif kind == "strings":
        labels = [f"r{i}" for i in range(n)]
        rng.shuffle(labels)
        out["index"] = labels
    else:
        raise ValueError(kind)
    return out


def frame_code(spec, var: str = "df") -> str:
    """Python source (needs `import numpy, pandas`) rebuilding build_frame(spec)."""
    lines = [f"{var} = pandas.DataFrame({{"]
    for c in spec["cols"]:
        if c["kind"] == "cat":
            if c["flavor"] == "category":
                e = f"pandas.Categorical({c['values']!r}, categories={c['levels']!r})"
            elif c["flavor"] == "object":
                e = f"pandas.Series({c['values']!r}, dtype=object)"
            elif c["flavor"] in ("int64", "bool"):
                e = f"numpy.array({c['values']!r}, dtype={c['flavor']!r})"
            else:
                e = f"pandas.Series({c['values']!r}, dtype='str')"
        elif c["dtype"] == "int":
            e = f"numpy.array({c['values']!r}, dtype='int64')"
        else:
            vals = "[" + ", ".join("numpy.nan" if v is None else repr(v) for v in c["values"]) + "]"
            e = f"numpy.array({vals}, dtype='float64')"
        lines.append(f"    {c['name']!r}: {e},")
    lines.append("})")
    if spec.get("index") is not None:
        lines.append(f"{var}.index = pandas.Index({spec['index']!r})")
    return "\n".join(lines)


def spec_summary(spec) -> str:
    parts = [f"n={spec['n']}"] + ([f"index={spec['index_kind']}"] if spec.get("index_kind", "default") != "default" else [])
    for c in spec["cols"]:
        if c["kind"] == "cat":
            parts.append(f"{c['name']}:{c['flavor']}{len(c['levels'])}")
        else:
            parts.append(f"{c['name']}:{c['dtype']}")
    return " ".join(parts)


def has_nulls(spec) -> bool:
    return any(v is None for c in spec["cols"] for v in c["values"])


# --------------------------------------------------------------------------- frame families
def small_frame_specs(seed: int, thorough: bool, nulls: bool = False) -> list[dict]:
    """The grid used by C02/C05: rows 1..6 x 0..3 categoricals (1..4 levels, the three flavors)
    x 0..3 numerics.  Deterministic in `seed`."""
    rng = random.Random(seed * 7919 + 17)
    flavors = ("category", "object", "str")
    out = []
    # (n, cats[(name, nlevels, flavor)], nums[(name, dtype)])
    grid = [
        (1, [("A", 1, "category")], [("a", "float")]),
        (1, [("A", 3, "category"), ("B", 1, "object")], [("a", "float"), ("b", "float")]),
        (2, [("A", 2, "object")], [("a", "float"), ("b", "float")]),
        (2, [], [("a", "float"), ("b", "float"), ("c", "int")]),
        (3, [("A", 3, "category"), ("B", 2, "object")], [("a", "float")]),
        (3, [("A", 2, "category"), ("B", 2, "category"), ("D", 2, "object")], []),
        (4, [("A", 4, "category")], [("a", "float"), ("b", "float"), ("c", "int")]),
        (4, [("A", 2, "object"), ("B", 3, "category")], [("a", "float"), ("b", "float")]),
        (5, [("A", 3, "object"), ("B", 2, "category"), ("D", 1, "category")], [("a", "float"), ("b", "float")]),
        (5, [("A", 4, "object")], [("b", "float"), ("c", "int")]),
        (6, [("A", 3, "category"), ("B", 2, "object"), ("D", 2, "category")], [("a", "float"), ("b", "float")]),
        (6, [("A", 2, "category"), ("B", 4, "object")], [("a", "float"), ("b", "float"), ("c", "int")]),
        # pandas-3 default text dtype
        (4, [("A", 2, "str")], [("a", "float")]),
        (6, [("A", 3, "str"), ("B", 2, "category")], [("a", "float"), ("b", "float")]),
    ]
    if thorough:
        for n in range(1, 7):
            for ncat in range(0, 4):
                for nnum in range(0, 4):
                    if ncat + nnum == 0:
                        continue
                    cats = [(CAT_NAMES[i], rng.randint(1, 4), flavors[rng.randrange(3) if rng.random() < 0.2 else rng.randrange(2)])
                            for i in range(ncat)]
                    nums = [(NUM_NAMES[i], "int" if NUM_NAMES[i] == "c" else "float") for i in range(nnum)]
                    grid.append((n, cats, nums))
    for n, cats, nums in grid:
        out.append(random_frame_spec(rng, n, cats, nums, nulls=nulls))
    return out


def null_frame_specs(seed: int, thorough: bool) -> list[dict]:
    """Frames with one null in the first categorical column and one in the first float column (different rows
    when there are >= 2 rows); category columns once with sorted+observed levels, once shuffled."""
    rng = random.Random(seed * 104729 + 3)
    grid = [
        (4, [("A", 3, "category")], [("a", "float"), ("b", "float")], True),
        (4, [("A", 3, "category")], [("a", "float"), ("b", "float")], False),
        (5, [("A", 2, "object"), ("B", 2, "category")], [("a", "float")], True),
        (3, [], [("a", "float"), ("b", "float")], None),
        (6, [("A", 3, "object")], [("b", "float"), ("c", "int")], None),
        (2, [("A", 2, "object")], [("a", "float"), ("b", "float")], None),  # both rows carry a null
        (6, [("A", 2, "str"), ("B", 3, "category")], [("a", "float"), ("b", "float")], True),
    ]
    if thorough:
        grid += [
            (6, [("A", 4, "category"), ("B", 2, "object"), ("D", 2, "category")], [("a", "float"), ("b", "float")], False),
            (5, [("A", 3, "category"), ("B", 3, "category")], [("a", "float"), ("b", "float"), ("c", "int")], True),
            (3, [("A", 2, "category")], [("a", "float")], True),
            (6, [("A", 4, "object"), ("B", 2, "object")], [("a", "float"), ("b", "float")], None),
        ]
    return [random_frame_spec(rng, n, cats, nums, nulls=True, sorted_levels=sl) for n, cats, nums, sl in grid]
