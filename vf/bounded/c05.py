"""C05 bounded stand-in: output types, entry points and materializers agree with one another.

Drivers (all on the REAL code):

  sparse-dummies   `categorical_encode_series_to_sparse_csc_matrix` against the indicator contract
                   (column j = [value == level_j]) and against `pandas.get_dummies`; exhaustive over all
                   sequences of length <= 4 over {a, b, c, null} x level specifications x drop_first x
                   input container.
  agree            the same (formula, frame, ensure_full_rank, na_action) through
                     outputs        {pandas, numpy, sparse}
                     entry points   formulaic.model_matrix / Formula(f).get_model_matrix /
                                    ModelSpec.from_spec(f, ...).get_model_matrix / <matrix>.model_spec.get_model_matrix /
                                    PandasMaterializer(df).get_model_matrix
                     materializers  PandasMaterializer / NarwhalsMaterializer(pandas frame) /
                                    NarwhalsMaterializer(pyarrow Table) (+ the sugar routes to them)
                   must give the same column names (from `model_spec.column_names`, and the DataFrame labels
                   for pandas output) in the same order and element-wise equal numbers (NaN == NaN), or all
                   raise.  Nothing but equality between the variants is demanded (no oracle values: C02).
"""
from __future__ import annotations

import hashlib
import itertools
import random
import traceback
import warnings
from concurrent.futures import ProcessPoolExecutor

import numpy

from . import _matrix_frames as mf
from ._matrix_report import emit_round_robin

MAX_WITNESS_PER_CLASS = 5
RTOL = 1e-12  # same IEEE operations are expected on every path; slack only for sparse vs dense multiply order
OUTPUTS = ("pandas", "numpy", "sparse")
EXPRS = {"I(a * 2)": ("a",), "np.log(b)": ("b",), "I(a + b)": ("a", "b")}


def _digest(key) -> bytes:
    return hashlib.blake2b(repr(key).encode(), digest_size=8).digest()


# =========================================================================== sparse dummies
DUMMY_WITNESS = '''\
import numpy, pandas
from formulaic.utils.sparse import categorical_encode_series_to_sparse_csc_matrix
values, levels, drop_first, container = {values!r}, {levels!r}, {drop_first!r}, {container!r}
data = {{"list": lambda v: list(v), "series": lambda v: pandas.Series(v, dtype=object),
        "categorical": lambda v: pandas.Categorical(v)}}[container](values)
got_levels, got = categorical_encode_series_to_sparse_csc_matrix(data, levels=levels, drop_first=drop_first)
exp_levels = list(levels) if levels is not None else sorted({{v for v in values if v is not None}})
if drop_first:
    exp_levels = exp_levels[1:]
exp = numpy.array([[1.0 if v == lv else 0.0 for lv in exp_levels] for v in values]).reshape(len(values), len(exp_levels))
assert list(got_levels) == exp_levels, (got_levels, exp_levels)
assert got.shape == exp.shape and (got.toarray() == exp).all(), (got.toarray(), exp)
dummies = pandas.get_dummies(pandas.Categorical(values, categories=levels), drop_first=drop_first)
assert list(dummies.columns) == list(got_levels) and (dummies.values.astype(float) == got.toarray()).all()
'''


ALPHABET = ("a", "b", "c", None)
LEVEL_SPECS = (None, ["a", "b", "c"], ["c", "a", "b"], ["a", "b"], ["b"], ["a", "b", "c", "d"])


def _dummy_task(sequences):
    try:
        return _dummy_task_body(sequences)
    except Exception as e:  # nothing may escape a pool worker
        first = list(sequences[0]) if sequences else []
        return 1, set(), [], [(f"oracle-not-applicable:{type(e).__name__}", first, None, False, "list",
                               f"{type(e).__name__}: {e}\n{traceback.format_exc()[-1500:]}")]


def _dummy_task_body(sequences):
    import pandas

    from formulaic.utils.sparse import categorical_encode_series_to_sparse_csc_matrix as enc

    containers = {
        "list": lambda v: list(v),
        "series": lambda v: pandas.Series(v, dtype=object),
        "categorical": lambda v: pandas.Categorical(v),
    }
    n_eval, keys, samples, failures = 0, set(), [], []
    for values in sequences:
        for levels in LEVEL_SPECS:
            for drop_first in (False, True):
                for cname, make in containers.items():
                    key = (values, tuple(levels) if levels else None, drop_first, cname)
                    n_eval += 1
                    if any(v is not None for v in values):
                        keys.add(_digest(key))
                    if len(samples) < 1:
                        samples.append({"values": values, "levels": levels, "drop_first": drop_first, "container": cname})
                    exp_levels = list(levels) if levels is not None else sorted({v for v in values if v is not None})
                    if drop_first:
                        exp_levels = exp_levels[1:]
                    exp = numpy.array([[1.0 if v == lv else 0.0 for lv in exp_levels] for v in values]).reshape(
                        len(values), len(exp_levels))
                    status, detail = "ok", ""
                    try:
                        with warnings.catch_warnings():
                            warnings.simplefilter("ignore")
                            got_levels, got = enc(make(values), levels=levels, drop_first=drop_first)
                    except Exception as e:  # outcome of the code under test
                        status, detail = f"raises-{type(e).__name__}", f"{type(e).__name__}: {e}"
                    else:
                        try:
                            dummies = pandas.get_dummies(pandas.Categorical(list(values), categories=levels), drop_first=drop_first)
                            if list(got_levels) != exp_levels:
                                status, detail = "levels", f"levels {list(got_levels)} expected {exp_levels}"
                            elif got.shape != exp.shape or not (got.toarray() == exp).all():
                                status, detail = "indicator", f"got {got.toarray().tolist()} expected {exp.tolist()}"
                            elif list(dummies.columns) != exp_levels or not (dummies.values.astype(float) == got.toarray()).all():
                                status, detail = "vs-get_dummies", f"get_dummies gives {dummies.values.tolist()} columns {list(dummies.columns)}"
                        except Exception as e:  # the returned objects cannot be judged (not a sparse matrix, not a list, ...)
                            status, detail = f"oracle-not-applicable:{type(e).__name__}", f"{type(e).__name__}: {e}"
                    if status != "ok":
                        cls = status if status.startswith("oracle-not-applicable") else \
                            f"{status}:{'levels-given' if levels is not None else 'levels-inferred'}:{'drop' if drop_first else 'nodrop'}"
                        failures.append((cls, list(values), levels, drop_first, cname, detail))
    return n_eval, keys, samples, failures


def _run_sparse_dummies(ctx):
    maxlen = 4 if ctx.thorough else 3
    seqs = [v for n in range(1, maxlen + 1) for v in itertools.product(ALPHABET, repeat=n)]
    chunks = [seqs[i::32] for i in range(32)]
    seen = {}
    with ctx.bounded(
        "sparse-dummies",
        rule="a case = (sequence, levels argument, drop_first, container); non-trivial = at least one non-null value; "
             "contract: returned levels = given levels (or sorted observed ones) minus the first if drop_first, column j = "
             "indicator of level j, nulls and values outside the levels give an all-zero row; also equal to "
             "pandas.get_dummies of the same Categorical",
        exhaustive=True,
        bound=f"all sequences of length 1..{maxlen} over {{a, b, c, null}}; levels in {{None, abc, cab, ab, b, abcd}}; "
              "drop_first on/off; containers list / object Series / Categorical",
    ) as b:
        collected = []
        with ProcessPoolExecutor(16) as ex:
            for n_eval, keys, samples, failures in ex.map(_dummy_task, chunks):
                b.add_counts(n_eval, keys, samples)
                collected.extend(failures)
        collected.sort(key=lambda f: (len(f[1]), repr(f)))
        for cls, values, levels, drop_first, cname, detail in collected:
            seen[cls] = seen.get(cls, 0) + 1
            if seen[cls] <= MAX_WITNESS_PER_CLASS:
                b.fail(clause="C05.sparse-dummies.indicator",
                       witness={"values": values, "levels": levels, "drop_first": drop_first, "container": cname, "cls": cls,
                                "code": DUMMY_WITNESS.format(values=values, levels=levels, drop_first=drop_first, container=cname)},
                       detail=detail)
        for cls, n in seen.items():
            ctx.notes.append(f"C05.sparse-dummies.indicator cls={cls}: {n} failing cases in total")


# =========================================================================== agreement
def _pool(spec):
    cats = [c["name"] for c in spec["cols"] if c["kind"] == "cat"]
    nums = [c["name"] for c in spec["cols"] if c["kind"] == "num"]
    exprs = [e for e, needs in EXPRS.items() if all(n in nums for n in needs)]
    return cats, nums + exprs


def _formulas_for_frame(spec, seed, frame_index, count):
    rng = random.Random(seed * 7907 + frame_index * 13 + 5)
    cats, nums = _pool(spec)
    pool = cats + nums
    subsets = [fs for k in (1, 2, 3) for fs in itertools.combinations(pool, k)]
    out, seen = [], set()
    # a few fixed shapes first (main effects, full interaction), then seeded ones
    fixed = []
    if pool:
        fixed.append(" + ".join(pool[:4]))
    if len(pool) >= 2:
        fixed.append("*".join(pool[:2]))
        fixed.append("0 + " + ":".join(pool[:3]))
    if cats and nums:
        fixed.append(f"{cats[0]}:{nums[0]} + 2.5:{nums[0]}")
        fixed.append(f"0 + {nums[0]}:{cats[0]}")
    plain_nums = [c["name"] for c in spec["cols"] if c["kind"] == "num"]
    if plain_nums and len(pool) >= 2:
        # two-sided formulas (-> ModelMatrices with .lhs/.rhs, through ModelSpecs.get_model_matrix)
        rest = [p for p in pool if p != plain_nums[0]]
        fixed.insert(1, f"{plain_nums[0]} ~ " + " + ".join(rest[:3]))
        if len(rest) >= 2:
            fixed.append(f"{plain_nums[0]} ~ 0 + {rest[0]}:{rest[1]}")
    for f in fixed:
        if f not in seen:
            seen.add(f)
            out.append(f)
    tries = 0
    while len(out) < count and tries < 50 * count and subsets:
        tries += 1
        nt = rng.randint(1, min(4, len(subsets)))
        chosen = rng.sample(subsets, nt)
        terms = []
        for fs in chosen:
            fs = list(fs)
            rng.shuffle(fs)
            if rng.random() < 0.25:
                fs = [rng.choice(("2.5", "0.5", "3"))] + fs
            terms.append(":".join(fs))
        f = ("" if rng.random() < 0.7 else "0 + ") + " + ".join(terms)
        if f not in seen:
            seen.add(f)
            out.append(f)
    return out


def _canon(mm, output):
    """(names, float matrix, problem) of a ModelMatrix; problem = label / container-type complaint.
    A two-sided result (.lhs/.rhs) is canonicalised part by part: names carry the part shapes and the
    numbers are concatenated into one column."""
    import pandas
    import scipy.sparse

    from formulaic.model_matrix import ModelMatrices

    if isinstance(mm, ModelMatrices):
        parts = [("lhs", *_canon(mm.lhs, output)), ("rhs", *_canon(mm.rhs, output))]
        names, flat, problem = (), [], None
        for tag, n, X, pr in parts:
            names += (tag, *n, f"shape{X.shape}" if X.ndim == 2 and X.shape[1] else "shape(*, 0)")  # empty: rows not judged
            flat.append(X.reshape(-1))
            problem = problem or (pr and f"{pr} [{tag}]")
        dtype = object if any(f.dtype == object for f in flat) else float
        return names, numpy.concatenate([f.astype(dtype) for f in flat]).reshape(-1, 1), problem
    names = tuple(mm.model_spec.column_names)
    raw = mm.toarray() if hasattr(mm, "toarray") else numpy.asarray(mm)
    problem = None
    expected_type = {"pandas": pandas.DataFrame, "numpy": numpy.ndarray,
                     "sparse": (scipy.sparse.spmatrix, getattr(scipy.sparse, "sparray", scipy.sparse.spmatrix))}[output]
    if not isinstance(mm, expected_type):
        problem = f"container-type: output={output!r} returned {type(getattr(mm, '__wrapped__', mm)).__name__}"
    elif output == "pandas" and tuple(str(c) for c in mm.columns) != tuple(str(c) for c in names):
        problem = f"pandas-labels: DataFrame labels {list(mm.columns)} != model_spec.column_names {list(names)}"
    try:
        X = numpy.asarray(raw, dtype=float)
    except (ValueError, TypeError):
        X = numpy.asarray(raw, dtype=object)
    return names, X, problem


def _variants(formula, df, tb, opts, output):
    """name -> thunk.  Every thunk builds the same matrix through another route."""
    import formulaic
    from formulaic import Formula, ModelSpec
    from formulaic.materializers import NarwhalsMaterializer, PandasMaterializer

    cx = {"np": numpy}
    o = dict(opts, output=output)
    v = {
        "sugar": lambda: formulaic.model_matrix(formula, df, context=cx, **o),
        "formula-method": lambda: Formula(formula).get_model_matrix(df, context=cx, **o),
        "modelspec-method": lambda: ModelSpec.from_spec(formula, **o).get_model_matrix(df, context=cx),
        "pandas-materializer": lambda: PandasMaterializer(df, context=cx).get_model_matrix(formula, **o),
        "narwhals-on-pandas": lambda: NarwhalsMaterializer(df, context=cx).get_model_matrix(formula, **o),
        "narwhals-on-arrow": lambda: NarwhalsMaterializer(tb, context=cx).get_model_matrix(formula, **o),
    }
    if output == "numpy":
        v["sugar-materializer=narwhals"] = lambda: formulaic.model_matrix(formula, df, context=cx, materializer="narwhals", **o)
        v["sugar-on-arrow"] = lambda: formulaic.model_matrix(formula, tb, context=cx, **o)
    return v


GROUP = {
    "sugar": "entry", "formula-method": "entry", "modelspec-method": "entry", "respec-method": "entry",
    "pandas-materializer": "entry",
    "narwhals-on-pandas": "materializer", "narwhals-on-arrow": "materializer",
    "sugar-materializer=narwhals": "materializer", "sugar-on-arrow": "materializer",
}

AGREE_WITNESS = '''\
import warnings, numpy, pandas, pyarrow, formulaic
from formulaic import Formula, ModelSpec
from formulaic.model_matrix import ModelMatrices
from formulaic.materializers import NarwhalsMaterializer, PandasMaterializer
warnings.simplefilter("ignore")
{frame}
tb = pyarrow.Table.from_pandas(df)
formula, cx = {formula!r}, {{"np": numpy}}
def build(route, output):
    o = dict({opts!r}, output=output)
    if route == "sugar": return formulaic.model_matrix(formula, df, context=cx, **o)
    if route == "formula-method": return Formula(formula).get_model_matrix(df, context=cx, **o)
    if route == "modelspec-method": return ModelSpec.from_spec(formula, **o).get_model_matrix(df, context=cx)
    if route == "respec-method": return formulaic.model_matrix(formula, df, context=cx, **o).model_spec.get_model_matrix(df, context=cx)
    if route == "pandas-materializer": return PandasMaterializer(df, context=cx).get_model_matrix(formula, **o)
    if route == "narwhals-on-pandas": return NarwhalsMaterializer(df, context=cx).get_model_matrix(formula, **o)
    if route == "narwhals-on-arrow": return NarwhalsMaterializer(tb, context=cx).get_model_matrix(formula, **o)
    if route == "sugar-materializer=narwhals": return formulaic.model_matrix(formula, df, context=cx, materializer="narwhals", **o)
    if route == "sugar-on-arrow": return formulaic.model_matrix(formula, tb, context=cx, **o)
def canon(route, output):
    try:
        mm = build(route, output)
    except Exception as e:
        return ("raises", type(e).__name__)
    if isinstance(mm, ModelMatrices):   # two-sided formula: .lhs and .rhs, compared part by part
        l, r = canon_one(mm.lhs, output), canon_one(mm.rhs, output)
        flat = [l[1].reshape(-1), r[1].reshape(-1)]
        dtype = object if any(f.dtype == object for f in flat) else float
        shp = lambda X: str(X.shape) if X.shape[1] else "(*, 0)"   # the row count of an empty part is not judged
        return (("lhs", *l[0], shp(l[1]), "rhs", *r[0], shp(r[1])), numpy.concatenate([f.astype(dtype) for f in flat]))
    return canon_one(mm, output)
def canon_one(mm, output):
    raw = mm.toarray() if hasattr(mm, "toarray") else numpy.asarray(mm)
    import scipy.sparse
    want = {{"pandas": pandas.DataFrame, "numpy": numpy.ndarray,
            "sparse": (scipy.sparse.spmatrix, getattr(scipy.sparse, "sparray", scipy.sparse.spmatrix))}}[output]
    assert isinstance(mm, want), f"output={{output!r}} returned a {{type(mm.__wrapped__).__name__}}"
    if output == "pandas":
        assert [str(c) for c in mm.columns] == [str(c) for c in mm.model_spec.column_names], "DataFrame labels differ from model_spec.column_names"
    try:
        X = numpy.asarray(raw, dtype=float)
    except (ValueError, TypeError):
        X = numpy.asarray(raw, dtype=object)
    return (tuple(mm.model_spec.column_names), X)
a = canon({ref_route!r}, {ref_output!r})
b = canon({route!r}, {output!r})
print({ref_route!r}, {ref_output!r}, a)
print({route!r}, {output!r}, b)
assert (a[0] == "raises") == (b[0] == "raises"), "one route raises, the other does not"
if a[0] != "raises":
    assert a[0] == b[0], "column names / order differ"
    assert a[1].dtype != object and b[1].dtype != object, "a matrix holds non-numeric entries"
    assert a[1].shape == b[1].shape and numpy.allclose(a[1], b[1], rtol={rtol!r}, atol=0, equal_nan=True), "numbers differ"
'''


def _compare(ref, other):
    """ref/other: ("raises", type, msg) | ("garbage", type, msg) | ("ok", names, X, problem).  -> None or (what, detail).
    Never raises: if the comparison itself cannot be carried out, that is reported as the verdict."""
    for r in (other, ref):
        if r[0] == "garbage":
            return f"oracle-not-applicable:{r[1]}", f"the returned object could not be read as names + numbers: {r[2]}"
    try:
        return _compare_inner(ref, other)
    except Exception as e:
        return f"oracle-not-applicable:{type(e).__name__}", f"{type(e).__name__}: {e}"


def _compare_inner(ref, other):
    if ref[0] == "raises" or other[0] == "raises":
        if ref[0] == other[0]:
            return None
        return "raises-vs-result", f"reference {ref[:3] if ref[0] == 'raises' else 'builds'}; this route {other[:3] if other[0] == 'raises' else 'builds'}"
    if other[3]:
        return other[3].split(":")[0], other[3]
    if ref[1] != other[1]:
        what = "names-order" if sorted(map(str, ref[1])) == sorted(map(str, other[1])) else "names"
        return what, f"reference {list(ref[1])} this route {list(other[1])}"
    if ref[2].ndim == 2 and other[2].ndim == 2 and ref[2].shape[1] == 0 and other[2].shape[1] == 0:
        # no numbers on either side: the statement compares numbers and column order only (the row count of an
        # EMPTY matrix is not judged; see the driver report)
        return None
    if ref[2].shape != other[2].shape:
        return "shape", f"reference {ref[2].shape} this route {other[2].shape}"
    if ref[2].dtype == object or other[2].dtype == object:
        same = ref[2].dtype == other[2].dtype and all(
            (x == y) or (x != x and y != y) for x, y in zip(ref[2].reshape(-1), other[2].reshape(-1)))
        if same:
            return None
        return "values-non-numeric", f"reference first rows {ref[2][:2].tolist()} this route {other[2][:2].tolist()}"
    if not numpy.allclose(ref[2], other[2], rtol=RTOL, atol=0, equal_nan=True):
        bad = numpy.argwhere(~numpy.isclose(ref[2], other[2], rtol=RTOL, atol=0, equal_nan=True))[0]
        return "values", (f"entry {tuple(int(i) for i in bad)} (column {ref[1][bad[1]]!r}): reference {ref[2][tuple(bad)]!r} "
                          f"this route {other[2][tuple(bad)]!r}")
    return None


def _frame_traits(spec, formula):
    """Data features that name a witness class (they are properties of the INPUT, not of the code)."""
    traits = []
    for c in spec["cols"]:
        if c["kind"] != "cat" or c["name"] not in formula:
            continue
        if c["flavor"] == "str":
            traits.append("str-dtype")
        if c["flavor"] == "category":
            traits.append("category-column")
            observed = sorted({v for v in c["values"] if v is not None})
            if list(c["levels"]) != observed:
                traits.append("category-levels-unsorted-or-unobserved")
            if any(v is None for v in c["values"]):
                traits.append("category-null")
        elif any(v is None for v in c["values"]):
            traits.append("text-null")
    for c in spec["cols"]:
        if c["kind"] == "num" and c["name"] in formula and any(v is None for v in c["values"]):
            traits.append("numeric-null")
    return sorted(set(traits))


ROUTE_GROUP = {
    "narwhals-on-pandas": "narwhals-pandas", "sugar-materializer=narwhals": "narwhals-pandas",
    "narwhals-on-arrow": "narwhals-arrow", "sugar-on-arrow": "narwhals-arrow",
}


def _classify(clause, route, output, what, traits, na, ref, res):
    """Witness class = <who disagrees>:<kind>.  The kind is decided by features of the INPUT (dtype of the text column,
    category order, nulls) and of the observable difference only."""
    if clause == "C05.outputs.agree":
        who = f"outputs({output}-vs-numpy)"
    elif clause == "C05.entrypoints.agree":
        who = f"entry({route})"
    else:
        who = ROUTE_GROUP[route]
    if what.startswith("oracle-not-applicable"):
        kind = what
    elif "str-dtype" in traits:
        kind = "str-dtype"
    elif who == "narwhals-arrow" and what in ("names", "names-order", "shape") and "category-column" in traits:
        # the levels of a dictionary (categorical) column: order, levels without rows (also after rows were dropped)
        kind = "dictionary-levels-lost"
    elif who == "narwhals-arrow" and what == "values" and "category-null" in traits and na == "ignore":
        kind = "dictionary-null-under-ignore"
    else:
        kind = what
    return f"{who}:{kind}"


def _agree_task(args):
    try:
        return _agree_task_body(args)
    except Exception as e:  # nothing may escape a pool worker
        cls = f"task:oracle-not-applicable:{type(e).__name__}"
        witness = {"formula": "(whole task)", "frame": mf.spec_summary(args[0]), "options": None, "route": None, "output": None,
                   "reference": None, "traits": [], "what": cls, "cls": cls,
                   "code": "from vf.bounded import c05\nc05._agree_task_body(" + repr(tuple(args)) + ")\n"}
        detail = f"{type(e).__name__}: {e}\n{traceback.format_exc()[-1500:]}"
        return 1, set(), [], [("C05.entrypoints.agree", witness, detail)], {("C05.entrypoints.agree", cls): 1}


def _agree_task_body(args):
    import pyarrow

    spec, seed, frame_index, nformulas, part, nparts, na_all = args
    df = mf.build_frame(spec)
    tb = pyarrow.Table.from_pandas(df)
    formulas = _formulas_for_frame(spec, seed, frame_index, nformulas)
    n_eval, keys, samples, failures, totals = 0, set(), [], [], {}
    warnings.simplefilter("ignore")
    for fi in range(part, len(formulas), nparts):
        formula = formulas[fi]
        for rank in (True, False):
            nas = ("drop", "raise", "ignore") if (na_all or fi < 2) else ("drop",)
            for na in nas:
                opts = {"ensure_full_rank": rank, "na_action": na}
                results = {}
                for output in OUTPUTS:
                    for route, thunk in _variants(formula, df, tb, opts, output).items():
                        try:
                            mm = thunk()
                        except Exception as e:  # outcome of the code under test
                            results[(route, output)] = ("raises", type(e).__name__, str(e)[:200])
                            continue
                        try:
                            names, X, problem = _canon(mm, output)
                        except Exception as e:  # what came back cannot even be read as names + numbers: an outcome
                            results[(route, output)] = ("garbage", type(e).__name__, f"{type(e).__name__}: {e}"[:300])
                            continue
                        results[(route, output)] = ("ok", names, X, problem)
                        if route == "sugar":
                            # model-spec method of the attached spec, same data
                            try:
                                mm2 = mm.model_spec.get_model_matrix(df, context={"np": numpy})
                            except Exception as e:
                                results[("respec-method", output)] = ("raises", type(e).__name__, str(e)[:200])
                            else:
                                try:
                                    results[("respec-method", output)] = ("ok", *_canon(mm2, output))
                                except Exception as e:
                                    results[("respec-method", output)] = ("garbage", type(e).__name__, f"{type(e).__name__}: {e}"[:300])
                n_eval += 1
                key = (mf.spec_summary(spec), frame_index, formula, rank, na)
                ref_key = ("sugar", "numpy")
                ref = results[ref_key]
                try:
                    nontrivial = ref[0] == "ok" and any(n not in ("Intercept", "lhs", "rhs") and not str(n).startswith("shape") for n in ref[1])
                except Exception:
                    nontrivial = True
                if nontrivial:
                    keys.add(_digest(key))
                if len(samples) < 2:
                    samples.append({"frame": mf.spec_summary(spec), "formula": formula, "ensure_full_rank": rank, "na_action": na,
                                    "routes_compared": len(results)})
                traits = _frame_traits(spec, formula)
                for (route, output), res in results.items():
                    if (route, output) == ref_key:
                        if res[0] != "ok" or not res[3]:
                            continue
                        # the reference itself has a label / container problem
                        res_for_ref = ("ok", res[1], res[2], None)
                        verdict = (res[3].split(":")[0], res[3])
                        clause, this_ref_key = "C05.outputs.agree", ref_key
                        what, detail = verdict
                        cls = _classify(clause, route, output, what, traits, na, res_for_ref, res)
                        totals[(clause, cls)] = totals.get((clause, cls), 0) + 1
                        if totals[(clause, cls)] <= 2:
                            code = AGREE_WITNESS.format(frame=mf.frame_code(spec), formula=formula, opts=opts, ref_route=route,
                                                        ref_output=output, route=route, output=output, rtol=RTOL)
                            failures.append((clause, {"formula": formula, "frame": mf.spec_summary(spec), "options": opts,
                                                      "route": route, "output": output, "reference": list(ref_key),
                                                      "traits": traits, "what": what, "cls": cls, "code": code}, detail))
                        continue
                    # outputs clause: same route (sugar) across outputs; entry/materializer clauses: same output
                    if route == "sugar":
                        clause, this_ref_key = "C05.outputs.agree", ref_key
                    else:
                        clause = "C05.entrypoints.agree" if GROUP[route] == "entry" else "C05.materializers.agree"
                        this_ref_key = ("sugar", output)
                    verdict = _compare(results[this_ref_key], res)
                    if verdict is None:
                        continue
                    what, detail = verdict
                    cls = _classify(clause, route, output, what, traits, na, results[this_ref_key], res)
                    totals[(clause, cls)] = totals.get((clause, cls), 0) + 1
                    if totals[(clause, cls)] <= 2:
                        code = AGREE_WITNESS.format(frame=mf.frame_code(spec), formula=formula, opts=opts, ref_route=this_ref_key[0],
                                                    ref_output=this_ref_key[1], route=route, output=output, rtol=RTOL)
                        failures.append((clause, {"formula": formula, "frame": mf.spec_summary(spec), "options": opts, "route": route,
                                                  "output": output, "reference": list(this_ref_key), "traits": traits, "what": what,
                                                  "cls": cls,
                                                  "code": code}, detail))
    return n_eval, keys, samples, failures, totals


def _run_agree(ctx):
    plain = mf.small_frame_specs(ctx.seed, ctx.thorough, nulls=False)
    withnull = mf.null_frame_specs(ctx.seed, ctx.thorough)
    nformulas = 24 if ctx.thorough else 12
    nparts = 2
    tasks = []
    for fi, spec in enumerate(plain):
        tasks += [(spec, ctx.seed, fi, nformulas, p, nparts, False) for p in range(nparts)]
    for fi, spec in enumerate(withnull):
        tasks += [(spec, ctx.seed, 1000 + fi, nformulas, p, nparts, True) for p in range(nparts)]
    with ctx.bounded(
        "agree-outputs-entrypoints-materializers",
        rule="a case = (frame, formula, ensure_full_rank, na_action); each case is built through 3 outputs x (5 entry points + "
             "narwhals on pandas + narwhals on arrow) + 2 sugar routes to narwhals (23 builds) and everything is compared with "
             "formulaic.model_matrix(..., output=o) (and that across outputs); non-trivial = the matrix has a non-intercept column",
        exhaustive=False,
        bound="frames: rows 1..6, 0-3 categoricals (1..4 levels; category/object/str dtype; category order not sorted, possibly "
              "unobserved levels), 0-3 numerics, with and without one null in a categorical and one in a numeric column; "
              f"{nformulas} formulas per frame (fixed shapes + seeded 1-4 term formulas with interactions, literal scalings, "
              "I(a * 2), np.log(b), I(a + b)); rank on/off; na_action drop/raise/ignore on the frames with nulls",
    ) as b:
        totals, collected = {}, []
        with ProcessPoolExecutor(16) as ex:
            for n_eval, keys, samples, failures, tot in ex.map(_agree_task, tasks):
                b.add_counts(n_eval, keys, samples)
                for k, v in tot.items():
                    totals[k] = totals.get(k, 0) + v
                collected.extend(failures)
        collected.sort(key=lambda f: (len(f[1]["formula"]), len(f[1]["code"]), f[1]["formula"], f[1]["output"], f[1]["route"]))
        emit_round_robin(b, collected, MAX_WITNESS_PER_CLASS)
        for (clause, cls), n in sorted(totals.items()):
            ctx.notes.append(f"{clause} cls={cls}: {n} disagreeing (case, route, output) triples in total")


def run_bounded(ctx):
    _run_sparse_dummies(ctx)
    _run_agree(ctx)
    if not ctx.explanation:  # the proofs module normally sets this; keeps the evidence schema-valid on its own
        ctx.explanation = ("bounded stand-in: the same formula/data/options through 3 outputs x 6 entry points x 3 materializer "
                           "inputs compared element-wise; sparse dummy encoder against the indicator contract and get_dummies")
    ctx.assume(
        "A-same-data: pyarrow.Table.from_pandas(frame) is 'the same data' as the frame (categoricals become dictionary "
        "arrays with the same dictionary order, NaN/None become nulls)",
        f"A-float: numbers are compared with rtol {RTOL}, NaN equal to NaN",
        "A-raise: under na_action='raise' (or any other failure) agreement means every route raises; exception types are "
        "not compared",
    )
