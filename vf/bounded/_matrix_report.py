"""Reporting helper shared by the model-matrix drivers (C02, C03, C05)."""
from __future__ import annotations


def emit_round_robin(b, collected, max_per_class=5):
    """collected: list of (clause, witness_dict_with_cls, detail), already sorted smallest-first.

    Calls b.fail for at most `max_per_class` witnesses per (clause, cls), interleaving the classes so that
    the first witnesses written to a replay file (which is per clause) show as many distinct classes as
    possible.  Returns {(clause, cls): number_reported}."""
    groups = {}
    for clause, witness, detail in collected:
        groups.setdefault((clause, witness["cls"]), []).append((clause, witness, detail))
    reported = {}
    for rnd in range(max_per_class):
        for key, items in groups.items():
            if rnd < len(items):
                clause, witness, detail = items[rnd]
                b.fail(clause=clause, witness=witness, detail=detail)
                reported[key] = reported.get(key, 0) + 1
    return reported
