"""C13 bounded stand-in: scale / center / standardize, poly and the preloaded elementwise
functions meet their numeric contracts.

Oracles (none taken from the implementation):
* scale/center: statistics recomputed from the raw training vector with math.fsum;
  contract clauses from the statement: zero mean, unit standard deviation for the chosen ddof,
  replay = the affine map fixed by the training statistics.
* poly: orthonormality, orthogonality to the constant, span equality and replay are judged
  against `exact_orthopoly`, a Gram-Schmidt in exact rational arithmetic (the span of the raw
  powers is represented by an exactly computed orthonormal basis of it, so the ill-conditioned
  Vandermonde matrix is never formed in floating point).
* elementwise: Python's `math` functions / float power as the meaning of the names.
"""
from __future__ import annotations

import copy
import inspect
import math
import random
from collections import Counter

import numpy as np
import pandas as pd

from . import _stateful_oracles as O
from ._stateful_util import Reporter, WorkResult, chunked, code, fl, guard, merge, pmap, quiet_numpy

EPS = float(np.finfo(float).eps)

A_FLOAT = (
    "A-float(C13): double precision; tolerances are forward-error bounds of the form "
    "c*n*eps*kappa with kappa = max|x|/sd + 1 (cancellation in x - mean), c = 16"
)


# ------------------------------------------------------------------------------------------
# generators
# ------------------------------------------------------------------------------------------
FAMILIES = ("gauss", "uniform", "grid", "lognormal", "ties", "integers")


def gen_vector(rng, n, family=None, mag=None, offset=None):
    family = family or rng.choice(FAMILIES)
    mag = 10 ** rng.uniform(-6, 6) if mag is None else mag
    if family == "gauss":
        base = [rng.gauss(0, 1) for _ in range(n)]
    elif family == "uniform":
        base = [rng.uniform(-1, 1) for _ in range(n)]
    elif family == "grid":
        base = [i / max(n - 1, 1) for i in range(n)]
        rng.shuffle(base)
    elif family == "lognormal":
        base = [math.exp(rng.gauss(0, 1)) for _ in range(n)]
    elif family == "ties":
        pool = [rng.uniform(-1, 1) for _ in range(max(2, min(n, rng.randint(2, 8))))]
        base = [rng.choice(pool) for _ in range(n)]
        base[0], base[-1] = pool[0], pool[1]
    else:  # integers
        base = [float(rng.randint(-9, 9)) for _ in range(n)]
    off = rng.choice([0.0, 0.0, 1.0, -3.0, 10.0]) if offset is None else offset
    x = np.array([(b + off) * mag for b in base], dtype=float)
    # clamp magnitudes into the stated window 1e-6..1e6 (zeros allowed)
    x = np.clip(x, -1e6, 1e6)
    return x, {"family": family, "mag": mag, "offset": off}


def as_input(x, kind):
    if kind == "ndarray":
        return np.array(x, dtype=float)
    if kind == "list":
        return [float(v) for v in x]
    if kind == "series":
        return pd.Series(np.array(x, dtype=float))
    if kind == "series-idx":
        return pd.Series(np.array(x, dtype=float), index=[f"r{i}" for i in range(len(x))][::-1])
    if kind in DTYPE_INPUTS:
        return DTYPE_INPUTS[kind][0](x)
    raise ValueError(kind)


# input containers of other element types: name -> (constructor, its source for witnesses, value range, class group)
def _ints(v):
    return [int(t) for t in v]


DTYPE_INPUTS = {
    "dtype:int8": (lambda v: np.array(_ints(v), dtype="int8"), "(lambda v: np.array([int(t) for t in v], dtype='int8'))", (-128, 127), "int"),
    "dtype:int16": (lambda v: np.array(_ints(v), dtype="int16"), "(lambda v: np.array([int(t) for t in v], dtype='int16'))", (-3000, 3000), "int"),
    "dtype:int32": (lambda v: np.array(_ints(v), dtype="int32"), "(lambda v: np.array([int(t) for t in v], dtype='int32'))", (-10**6, 10**6), "int"),
    "dtype:int64": (lambda v: np.array(_ints(v), dtype="int64"), "(lambda v: np.array([int(t) for t in v], dtype='int64'))", (-10**6, 10**6), "int"),
    "dtype:uint8": (lambda v: np.array(_ints(v), dtype="uint8"), "(lambda v: np.array([int(t) for t in v], dtype='uint8'))", (0, 255), "int"),
    "dtype:uint16": (lambda v: np.array(_ints(v), dtype="uint16"), "(lambda v: np.array([int(t) for t in v], dtype='uint16'))", (0, 60000), "int"),
    "dtype:uint32": (lambda v: np.array(_ints(v), dtype="uint32"), "(lambda v: np.array([int(t) for t in v], dtype='uint32'))", (0, 10**6), "int"),
    "dtype:uint64": (lambda v: np.array(_ints(v), dtype="uint64"), "(lambda v: np.array([int(t) for t in v], dtype='uint64'))", (0, 10**6), "int"),
    "dtype:bool": (lambda v: np.array(_ints(v), dtype=bool), "(lambda v: np.array([int(t) for t in v], dtype=bool))", (0, 1), "bool"),
    "dtype:python-int-list": (lambda v: _ints(v), "(lambda v: [int(t) for t in v])", (-50, 50), "int"),
    "dtype:series-int64": (lambda v: pd.Series(_ints(v), dtype="int64"), "(lambda v: pd.Series([int(t) for t in v], dtype='int64'))", (-1000, 1000), "int"),
    "dtype:nullable-Int64": (lambda v: pd.Series(pd.array(_ints(v), dtype="Int64")), "(lambda v: pd.Series(pd.array([int(t) for t in v], dtype='Int64')))", (-1000, 1000), "int"),
    "dtype:nullable-Float64": (lambda v: pd.Series(pd.array([float(t) for t in v], dtype="Float64")), "(lambda v: pd.Series(pd.array([float(t) for t in v], dtype='Float64')))", None, "nullable-float"),
    "dtype:float32": (lambda v: np.array(v, dtype="float32"), "(lambda v: np.array(v, dtype='float32'))", None, "float32"),
}


def stats(x, ddof):
    n = len(x)
    m = math.fsum(x) / n
    ss = math.fsum((float(v) - m) ** 2 for v in x)
    sd = math.sqrt(ss / (n - ddof)) if n - ddof > 0 else float("nan")
    return m, sd


# ------------------------------------------------------------------------------------------
# scale / center / standardize
# ------------------------------------------------------------------------------------------
SCALE_CODE = """
import math, numpy as np, pandas as pd
from formulaic.transforms import scale, center
from formulaic.transforms.patsy_compat import standardize
x = {x}
y = {y}
fn, kwargs = {fn}, {kwargs}
ddof, centered, scaled = {ddof}, {centered}, {scaled}
n = len(x); eps = 2.220446049250313e-16
m = math.fsum(x) / n
sd = math.sqrt(math.fsum((v - m) ** 2 for v in x) / (n - ddof))
kappa = max(abs(v) for v in x) / sd + 1
state = {{}}
raw = np.asarray(fn({ctor}(x), _state=state, **kwargs))
if raw.dtype.kind == "f" and raw.dtype.itemsize < 8:
    eps = float(np.finfo(raw.dtype).eps)      # a float32 input is processed (and judged) in float32
r = raw.astype(float)
tol = 16 * n * eps * kappa
clause = {clause!r}
if clause == "C13.scale.train-zero-mean":
    scale_ = sd if scaled else 1.0
    assert abs(math.fsum(r) / n) <= tol * (1 if scaled else sd), ("mean of the fitted output", math.fsum(r) / n)
elif clause == "C13.scale.train-unit-std":
    mr = math.fsum(r) / n
    s = math.sqrt(math.fsum((v - mr) ** 2 for v in r) / (n - ddof))
    assert abs(s - 1) <= tol, ("std(ddof) of the fitted output", s)
elif clause == "C13.scale.train-values" and scaled and not centered:
    # without centring the divisor may be read as the standard deviation (docs) or the root mean square (R); any other
    # value, or a non-finite output, is wrong under both readings
    assert np.isfinite(r).all(), list(r)
    rms = math.sqrt(math.fsum(v * v for v in x) / (n - ddof))
    i0 = max(range(n), key=lambda i: abs(x[i]))
    k = x[i0] / r[i0]
    assert abs(k - rms) <= tol * rms or abs(k - sd) <= tol * sd, ("divisor", k, "rms", rms, "sd", sd)
    assert all(abs(a - v / k) <= 64 * eps * abs(v / k) for a, v in zip(r, x)), "output is not x / constant"
elif clause == "C13.scale.train-values":
    exp = [((v - m) if centered else v) / (sd if (scaled and centered) else 1.0) for v in x]
    assert all(abs(a - b) <= tol * (1 + abs(b)) * (1 if scaled else max(abs(v) for v in x)) for a, b in zip(r, exp)), (list(r), exp)
elif clause == "C13.scale.replay-recorded-stats":
    r2 = np.asarray(fn({ctor}(y), _state=state, **kwargs), dtype=float)
    exp = [((v - m) if centered else v) / (sd if scaled else 1.0) for v in y]
    big = max(abs(v) for v in list(x) + list(y))
    assert all(abs(a - b) <= tol * (1 + abs(b)) * (1 if scaled else big) for a, b in zip(r2, exp)), (list(r2), exp)
"""


def _scale_cases(rng, n_random, exhaustive_n):
    """yield dicts describing cases"""
    cases = []
    # exhaustive small scope: all non-constant vectors over {-2..2}^n
    vals = (-2.0, -1.0, 0.0, 1.0, 2.0)
    import itertools

    for n in range(2, exhaustive_n + 1):
        for tup in itertools.product(vals, repeat=n):
            if len(set(tup)) < 2:
                continue
            for centered in (True, False):
                for scaled in (True, False):
                    for ddof in (0, 1):
                        cases.append(
                            dict(x=list(tup), y=[tup[-1], 0.5, tup[0]], fn="scale", centered=centered,
                                 scaled=scaled, ddof=ddof, kind="ndarray", tag="exh")
                        )
    kinds = ("ndarray", "list", "series", "series-idx")
    for i in range(n_random):
        n = rng.choice([2, 2, 3, 4, 5, 7, 10, 17, 25, 50, rng.randint(2, 50)])
        x, meta = gen_vector(rng, n)
        if len(set(x.tolist())) < 2:
            x[0] = x[0] + (abs(x[0]) + 1e-6)
        y, _ = gen_vector(rng, rng.randint(1, 12), family=meta["family"], mag=meta["mag"], offset=meta["offset"])
        fn = rng.choice(["scale", "scale", "scale", "center", "standardize"])
        if fn == "center":
            centered, scaled, ddof = True, False, 1
        elif fn == "standardize":
            centered, scaled, ddof = rng.choice([True, True, False]), rng.choice([True, True, False]), 0
        else:
            centered, scaled = rng.choice([(True, True), (True, True), (True, False), (False, True), (False, False)])
            ddof = rng.choice([0, 1, 1, 2, 0.5])
        if n - ddof <= 0:
            ddof = 1 if n > 1 else 0
        cases.append(dict(x=x.tolist(), y=y.tolist(), fn=fn, centered=centered, scaled=scaled, ddof=ddof,
                          kind=rng.choice(kinds), tag=meta["family"]))
    # the element type of the input as a dimension: every integer / boolean / float32 / nullable container, with
    # integer data whose mean is not an integer
    dkinds = list(DTYPE_INPUTS)
    for i in range(max(len(dkinds) * 3, n_random // 4)):
        kind = dkinds[i % len(dkinds)]
        rng_ = DTYPE_INPUTS[kind][2]
        n = rng.choice([2, 3, 5, 5, 8, 13, 30])
        if rng_ is None:  # float containers: values exactly representable in float32
            x = [float(np.float32(v)) for v in gen_vector(rng, n, mag=10 ** rng.uniform(-3, 3))[0]]
            y = [float(np.float32(v)) for v in gen_vector(rng, rng.randint(1, 6), mag=max(abs(v) for v in x) or 1.0)[0]]
        else:
            lo, hi = rng_
            x = [rng.randint(lo, hi) for _ in range(n)]
            if kind == "dtype:bool":
                x[:2] = [0, 1]
            if sum(x) % n == 0:  # force a fractional mean
                j = max(range(n), key=lambda t: -x[t])
                x[j] = x[j] + 1 if x[j] < hi else x[j] - 1
            y = [rng.randint(lo, hi) for _ in range(rng.randint(1, 6))]
            x, y = [float(v) for v in x], [float(v) for v in y]
        if len(set(x)) < 2:
            continue
        fn = rng.choice(["scale", "scale", "center", "standardize"])
        if fn == "center":
            centered, scaled, ddof = True, False, 1
        elif fn == "standardize":
            centered, scaled, ddof = True, True, 0
        else:
            centered, scaled = rng.choice([(True, True), (True, True), (True, False), (False, True)])
            ddof = rng.choice([0, 1, 1]) if n > 2 else rng.choice([0, 1])
        cases.append(dict(x=x, y=y, fn=fn, centered=centered, scaled=scaled, ddof=ddof, kind=kind, tag=kind))
    return cases


def _scale_kwargs(c):
    if c["fn"] == "center":
        return {}
    if c["fn"] == "standardize":
        return {"center": c["centered"], "rescale": c["scaled"]}  # ddof default 0 (documented patsy semantics)
    return {"center": c["centered"], "scale": c["scaled"], "ddof": c["ddof"]}


def _scale_witness(c, clause):
    ctor = {"ndarray": "np.array", "list": "list", "series": "pd.Series",
            "series-idx": "(lambda v: pd.Series(v, index=['r%d' % i for i in range(len(v))][::-1]))",
            **{k: v[1] for k, v in DTYPE_INPUTS.items()}}[c["kind"]]
    return code(SCALE_CODE.format(x=fl(c["x"]), y=fl(c["y"]), fn=c["fn"], kwargs=repr(_scale_kwargs(c)),
                                  ddof=repr(c["ddof"]), centered=c["centered"], scaled=c["scaled"], ctor=ctor,
                                  clause=clause))


def _scale_worker(cases):
    from formulaic.transforms import center, scale
    from formulaic.transforms.patsy_compat import standardize

    fns = {"scale": scale, "center": center, "standardize": standardize}
    res = WorkResult()
    for c in cases:
        x, y = c["x"], c["y"]
        n = len(x)
        ddof, centered, scaled = c["ddof"], c["centered"], c["scaled"]
        m, sd = stats(x, ddof)
        if not (sd > 0) or not math.isfinite(sd):
            continue  # constant vector: unit variance is undefined (outside the stated contract)
        kappa = max(abs(v) for v in x) / sd + 1
        tol = 16 * n * EPS * kappa
        key = ("scale", c["fn"], centered, scaled, ddof, c["kind"], tuple(x), tuple(y))
        res.case(key, nontrivial=True,
                 sample={"fn": c["fn"], "center": centered, "scale": scaled, "ddof": ddof, "n": n, "x[:3]": x[:3]})
        fn = fns[c["fn"]]
        kwargs = _scale_kwargs(c)
        state = {}
        wit = lambda clause: {"fn": c["fn"], "kwargs": kwargs, "x": x, "y": y, "input": c["kind"],
                              "code": _scale_witness(c, clause)}
        cls_base = f"{c['fn']}:center={centered}:scale={scaled}" + (
            f":{DTYPE_INPUTS[c['kind']][3]}-input" if c["kind"] in DTYPE_INPUTS else "")
        rt = 1e-12
        try:
            with quiet_numpy():
                raw = np.asarray(fn(as_input(x, c["kind"]), _state=state, **kwargs))
                if raw.dtype.kind == "f" and raw.dtype.itemsize < 8:  # float32 in, float32 out: judged at that precision
                    tol *= float(np.finfo(raw.dtype).eps) / EPS
                    rt = 64 * float(np.finfo(raw.dtype).eps)
                r = raw.astype(float)
        except Exception as e:  # the code under test may not raise on a finite non-constant vector
            res.fail("C13.scale.train-values", cls_base + ":raises-" + type(e).__name__, wit("C13.scale.train-values"),
                     f"{type(e).__name__}: {e}")
            continue
        if r.shape != (n,):
            res.fail("C13.scale.train-values", cls_base + ":shape", wit("C13.scale.train-values"), f"shape {r.shape}")
            continue
        big = max(abs(v) for v in x)
        # --- training contract
        if centered:
            mr = math.fsum(r) / n
            if not abs(mr) <= tol * (1 if scaled else sd):
                res.fail("C13.scale.train-zero-mean", cls_base, wit("C13.scale.train-zero-mean"),
                         f"mean(result)={mr!r} tol={tol * (1 if scaled else sd)!r}")
        if centered and scaled:
            mr = math.fsum(r) / n
            s = math.sqrt(math.fsum((v - mr) ** 2 for v in r) / (n - ddof))
            if not abs(s - 1) <= tol:
                res.fail("C13.scale.train-unit-std", cls_base + f":ddof={ddof}", wit("C13.scale.train-unit-std"),
                         f"std(result, ddof={ddof})={s!r}")
        # values (only where the statement fixes them: centred => x - mean, then / sd)
        if centered or not scaled:
            exp = [((v - m) if centered else v) / (sd if (scaled and centered) else 1.0) for v in x]
            bad = [i for i, (a, b) in enumerate(zip(r, exp))
                   if not abs(a - b) <= tol * (1 + abs(b)) * (1 if scaled else big)]
            if bad:
                res.fail("C13.scale.train-values", cls_base, wit("C13.scale.train-values"),
                         f"rows {bad[:5]}: got {[float(r[i]) for i in bad[:5]]} expected {[exp[i] for i in bad[:5]]}")
        else:
            # scale without centring: the divisor is the standard deviation (docs) or the root mean square (R);
            # anything else, or non-finite output for finite input, is wrong under both readings
            rms = math.sqrt(math.fsum(v * v for v in x) / (n - ddof))
            i0 = int(np.argmax(np.abs(x)))
            eps_rel = tol / kappa
            if not np.isfinite(r).all():
                res.fail("C13.scale.train-values", cls_base + ":non-finite-output", wit("C13.scale.train-values"),
                         f"finite input {x[:5]} gives {r.tolist()[:5]}")
                continue
            k = x[i0] / r[i0] if r[i0] != 0 else float("nan")
            if not (abs(k - rms) <= eps_rel * kappa * rms or abs(k - sd) <= eps_rel * kappa * sd):
                res.fail("C13.scale.train-values", cls_base + ":divisor-neither-rms-nor-std", wit("C13.scale.train-values"),
                         f"x / result = {k!r}; root mean square {rms!r}, standard deviation {sd!r} (ddof={ddof})")
                continue
            if not all(abs(a - v / k) <= max(rt, 64 * EPS) * abs(v / k) for a, v in zip(r, x)):
                res.fail("C13.scale.train-values", cls_base + ":not-proportional", wit("C13.scale.train-values"),
                         "output is not x divided by one constant")
                continue
        # --- replay contract: recorded statistics applied unchanged, state not modified
        snapshot = copy.deepcopy(state)
        try:
            with quiet_numpy():
                r2 = np.asarray(fn(as_input(y, c["kind"]), _state=state, **kwargs), dtype=float)
                r1 = np.asarray(fn(as_input(x, c["kind"]), _state=state, **kwargs), dtype=float)
        except Exception as e:
            res.fail("C13.scale.replay-recorded-stats", cls_base + ":raises-" + type(e).__name__,
                     wit("C13.scale.replay-recorded-stats"), f"{type(e).__name__}: {e}")
            continue
        if centered or not scaled:
            exp2 = [((v - m) if centered else v) / (sd if scaled else 1.0) for v in y]
            big2 = max([big] + [abs(v) for v in y])
            bad = [i for i, (a, b) in enumerate(zip(r2, exp2))
                   if not abs(a - b) <= tol * (1 + abs(b)) * (1 if scaled else big2)]
        else:
            # scale without centring: the statement does not fix the divisor; replay must apply the
            # same divisor as on the training data (recorded statistic)
            i0 = int(np.argmax(np.abs(x)))
            k = x[i0] / r[i0]
            exp2 = [v / k for v in y]
            bad = [i for i, (a, b) in enumerate(zip(r2, exp2)) if not abs(a - b) <= rt * abs(b)]
        if bad:
            res.fail("C13.scale.replay-recorded-stats", cls_base, wit("C13.scale.replay-recorded-stats"),
                     f"rows {bad[:5]}: got {[float(r2[i]) for i in bad[:5]]} expected {[exp2[i] for i in bad[:5]]}")
        if not np.allclose(r1, r, rtol=rt, atol=0, equal_nan=True):
            res.fail("C13.scale.replay-recorded-stats", cls_base + ":training-rows-differ",
                     wit("C13.scale.replay-recorded-stats"), "replay on the training vector differs from the fit output")
        if repr(sorted(snapshot.items(), key=lambda kv: kv[0])) != repr(sorted(state.items(), key=lambda kv: kv[0])):
            res.fail("C13.scale.replay-recorded-stats", cls_base + ":state-mutated",
                     wit("C13.scale.replay-recorded-stats"), f"state before {snapshot} after {state}")
    return res.pack()


# via formulas (observe_at: model_matrix('scale(x) + ...'))
FORMULA_CODE = """
import math, numpy as np, pandas as pd
from formulaic import model_matrix
x = {x}
y = {y}
df = pd.DataFrame({{"x": x}})
mm = model_matrix({formula!r}, df, context={{}})
n = len(x); eps = 2.220446049250313e-16
m = math.fsum(x) / n
sd = math.sqrt(math.fsum((v - m) ** 2 for v in x) / (n - {ddof}))
kappa = max(abs(v) for v in x) / sd + 1
tol = 16 * n * eps * kappa
col = np.asarray(mm.iloc[:, 0], dtype=float)
exp = [(v - m) / ({div}) for v in x]
assert all(abs(a - b) <= tol * (1 + abs(b)) * ({absf}) for a, b in zip(col, exp)), ("fit", list(col), exp)
m2 = mm.model_spec.get_model_matrix(pd.DataFrame({{"x": y}}))
col2 = np.asarray(m2.iloc[:, 0], dtype=float)
exp2 = [(v - m) / ({div}) for v in y]
big = max(abs(v) for v in x + y)
assert all(abs(a - b) <= tol * (1 + abs(b)) * ({absf2}) for a, b in zip(col2, exp2)), ("replay", list(col2), exp2)
"""


def _formula_worker(cases):
    from formulaic import model_matrix

    res = WorkResult()
    for c in cases:
        x, y, formula, ddof, scaled = c["x"], c["y"], c["formula"], c["ddof"], c["scaled"]
        n = len(x)
        m, sd = stats(x, ddof)
        if not sd > 0:
            continue
        kappa = max(abs(v) for v in x) / sd + 1
        tol = 16 * n * EPS * kappa
        big = max(abs(v) for v in x)
        big2 = max([big] + [abs(v) for v in y])
        res.case(("formula", formula, tuple(x), tuple(y)), True, {"formula": formula, "n": n})
        w = {"formula": formula, "x": x, "y": y,
             "code": code(FORMULA_CODE.format(x=fl(x), y=fl(y), formula=formula, ddof=repr(ddof),
                                              div="sd" if scaled else "1.0",
                                              absf="1" if scaled else "max(abs(v) for v in x)",
                                              absf2="1" if scaled else "big"))}
        try:
            with quiet_numpy():
                mm = model_matrix(formula, pd.DataFrame({"x": x}), context={})
                m2 = mm.model_spec.get_model_matrix(pd.DataFrame({"x": y}))
        except Exception as e:
            res.fail("C13.scale.formula", "raises-" + type(e).__name__, w, f"{type(e).__name__}: {e}")
            continue
        col = np.asarray(mm.iloc[:, 0], dtype=float)
        col2 = np.asarray(m2.iloc[:, 0], dtype=float)
        div = sd if scaled else 1.0
        exp = [(v - m) / div for v in x]
        exp2 = [(v - m) / div for v in y]
        if not all(abs(a - b) <= tol * (1 + abs(b)) * (1 if scaled else big) for a, b in zip(col, exp)):
            res.fail("C13.scale.formula", "fit:" + c["name"], w, f"fit column {col.tolist()} expected {exp}")
        elif not all(abs(a - b) <= tol * (1 + abs(b)) * (1 if scaled else big2) for a, b in zip(col2, exp2)):
            res.fail("C13.scale.formula", "replay:" + c["name"], w, f"replay column {col2.tolist()} expected {exp2}")
    return res.pack()



# ------------------------------------------------------------------------------------------
# scale / center / standardize on multi-column inputs (2-D arrays, data frames, dict- / 2-D-valued inner transforms)
# ------------------------------------------------------------------------------------------
def _column_failures(x, y, r, r2, centered, scaled, ddof):
    """per-column contract: x training column, y follow-up column, r / r2 the transform's outputs for them.
    Returns [(clause, tag, detail)]; the same clauses and tolerances as for single vectors."""
    out = []
    n = len(x)
    m, sd = stats(x, ddof)
    if not (sd > 0) or not math.isfinite(sd):
        return out
    big = max(abs(v) for v in x)
    tol = 16 * n * EPS * (big / sd + 1)
    if centered:
        mr = math.fsum(r) / n
        if not abs(mr) <= tol * (1 if scaled else sd):
            out.append(("C13.scale.train-zero-mean", "", f"column mean {mr!r}"))
    if centered and scaled:
        mr = math.fsum(r) / n
        s_ = math.sqrt(math.fsum((v - mr) ** 2 for v in r) / (n - ddof))
        if not abs(s_ - 1) <= tol:
            out.append(("C13.scale.train-unit-std", f":ddof={ddof}", f"column std(ddof={ddof}) = {s_!r}"))
    if centered or not scaled:
        exp = [((v - m) if centered else v) / (sd if (scaled and centered) else 1.0) for v in x]
        if not all(abs(a - b) <= tol * (1 + abs(b)) * (1 if scaled else big) for a, b in zip(r, exp)):
            out.append(("C13.scale.train-values", "", f"column values {list(map(float, r[:3]))} expected {exp[:3]}"))
        exp2 = [((v - m) if centered else v) / (sd if scaled else 1.0) for v in y]
        big2 = max([big] + [abs(v) for v in y])
        if not all(abs(a - b) <= tol * (1 + abs(b)) * (1 if scaled else big2) for a, b in zip(r2, exp2)):
            out.append(("C13.scale.replay-recorded-stats", "", f"replayed {list(map(float, r2[:3]))} expected {exp2[:3]}"))
    else:
        i0 = int(np.argmax(np.abs(x)))
        if r[i0] != 0:
            k = x[i0] / r[i0]
            if not all(abs(a - v / k) <= 1e-12 * abs(v / k) for a, v in zip(r2, y)):
                out.append(("C13.scale.replay-recorded-stats", "", "replay uses a different divisor than the fit"))
    return out


MULTI_DIRECT_CODE = """
import math, numpy as np, pandas as pd
from formulaic.transforms import scale, center
from formulaic.transforms.patsy_compat import standardize
EPS = 2.220446049250313e-16
{helpers}
X = np.array({X})          # training matrix, one variable per column
Y = np.array({Y})          # follow-up rows
fn, kwargs = {fn}, {kwargs}
ddof, centered, scaled = {ddof}, {centered}, {scaled}
wrap = {wrap}
state = {{}}
R = np.asarray(fn(wrap(X), _state=state, **kwargs), dtype=float)
R2 = np.asarray(fn(wrap(Y), _state=state, **kwargs), dtype=float)
assert R.shape == X.shape and R2.shape == Y.shape, (R.shape, R2.shape)
bad = []
for j in range(X.shape[1]):
    bad += [(j, c, d) for c, t, d in _column_failures(X[:, j].tolist(), Y[:, j].tolist(), R[:, j], R2[:, j], centered, scaled, ddof)
            if c == {clause!r}]
assert not bad, bad
"""

MULTI_FORMULA_CODE = """
import math, numpy as np, pandas as pd
from formulaic import model_matrix
EPS = 2.220446049250313e-16
{helpers}
x, x_new = {x}, {x_new}
ctx_train = {{"X": np.array({X}), "pdX": pd.DataFrame(np.array({X}))}}
ctx_new = {{"X": np.array({Y}), "pdX": pd.DataFrame(np.array({Y}))}}
inner, outer = {inner!r}, {outer!r}
ddof, centered, scaled = {ddof}, {centered}, {scaled}
df, df_new = pd.DataFrame({{"x": x}}), pd.DataFrame({{"x": x_new}})
# the columns the outer transform receives: the inner expression materialized on its own (and replayed on the new rows)
if inner in ("X", "pdX"):
    I, I2 = ctx_train["X"], ctx_new["X"]
else:
    mi = model_matrix(inner + " - 1", df, context=ctx_train)
    I = np.asarray(mi, dtype=float)
    I2 = np.asarray(mi.model_spec.get_model_matrix(df_new, context=ctx_new), dtype=float)
mo = model_matrix(outer.format(inner) + " - 1", df, context=ctx_train)
R = np.asarray(mo, dtype=float)
R2 = np.asarray(mo.model_spec.get_model_matrix(df_new, context=ctx_new), dtype=float)
assert R.shape == I.shape and R2.shape == I2.shape, (R.shape, I.shape)
bad = []
for j in range(I.shape[1]):
    bad += [(mo.columns[j], c, d) for c, t, d in _column_failures(I[:, j].tolist(), I2[:, j].tolist(), R[:, j], R2[:, j], centered, scaled, ddof)
            if c == {clause!r}]
assert not bad, bad
"""

OUTERS = [("scale({})", True, True, 1), ("center({})", True, False, 1), ("standardize({})", True, True, 0),
          ("scale({}, ddof=0)", True, True, 0), ("scale({}, scale=False)", True, False, 1),
          ("scale({}, center=False)", False, True, 1)]
INNERS = ["X", "pdX", "poly(x, 2, raw=True)", "poly(x, 3)", "bs(x, df=4)", "bs(x, df=3, degree=1, include_intercept=True)",
          "cr(x, df=3)", "cc(x, df=3)"]


def _gen_matrix(rng, n, k):
    cols = []
    for _ in range(k):
        v, _m = gen_vector(rng, n)
        if len(set(v.tolist())) < 2:
            v[0] = v[0] + abs(v[0]) + 1e-6
        cols.append(v)
    return np.column_stack(cols)


def _multi_cases(rng, n_direct, n_formula):
    cases = []
    for i in range(n_direct):
        n, k = rng.choice([2, 3, 5, 12, 50, rng.randint(2, 50)]), rng.choice([2, 2, 3, 4])
        X = _gen_matrix(rng, n, k)
        Y = np.column_stack([gen_vector(rng, 4)[0] * 0 + X[rng.randrange(n), j] + gen_vector(rng, 4)[0] for j in range(k)])
        fn = rng.choice(["scale", "scale", "center", "standardize"])
        if fn == "center":
            centered, scaled, ddof = True, False, 1
        elif fn == "standardize":
            centered, scaled, ddof = True, rng.choice([True, True, False]), 0
        else:
            centered, scaled = rng.choice([(True, True), (True, True), (True, False), (False, True)])
            ddof = rng.choice([0, 1, 1, 2]) if n > 2 else rng.choice([0, 1])
        cases.append({"kind": "direct", "X": X.tolist(), "Y": Y.tolist(), "fn": fn, "centered": centered, "scaled": scaled,
                      "ddof": ddof, "wrap": rng.choice(["ndarray", "fortran", "dataframe"])})
    for i in range(n_formula):
        n = rng.choice([8, 12, 20, 50])
        x = [rng.uniform(-3, 3) for _ in range(n)]
        lo, hi = min(x), max(x)
        x_new = [rng.uniform(lo, hi) for _ in range(5)] + [x[0]]
        X = _gen_matrix(rng, n, rng.choice([2, 3]))
        Y = X[[rng.randrange(n) for _ in range(len(x_new))]] * 1.0 + 0.5 * X.std(axis=0)
        outer, centered, scaled, ddof = OUTERS[i % len(OUTERS)]
        inner = INNERS[(i // len(OUTERS)) % len(INNERS)]
        cases.append({"kind": "formula", "x": x, "x_new": x_new, "X": X.tolist(), "Y": Y.tolist(), "outer": outer,
                      "inner": inner, "centered": centered, "scaled": scaled, "ddof": ddof})
    return cases


def _multi_kwargs(c):
    if c["fn"] == "center":
        return {}
    if c["fn"] == "standardize":
        return {"center": c["centered"], "rescale": c["scaled"]}
    return {"center": c["centered"], "scale": c["scaled"], "ddof": c["ddof"]}


_WRAPS = {"ndarray": "np.array", "fortran": "np.asfortranarray", "dataframe": "pd.DataFrame"}


def _multi_worker(cases):
    from formulaic import model_matrix
    from formulaic.transforms import center, scale
    from formulaic.transforms.patsy_compat import standardize

    fns = {"scale": scale, "center": center, "standardize": standardize}
    wraps = {"ndarray": np.array, "fortran": np.asfortranarray, "dataframe": pd.DataFrame}
    helpers = inspect.getsource(stats) + "\n" + inspect.getsource(_column_failures)
    res = WorkResult()
    for c in cases:
        centered, scaled, ddof = c["centered"], c["scaled"], c["ddof"]
        if c["kind"] == "direct":
            X, Y = np.array(c["X"]), np.array(c["Y"])
            kwargs = _multi_kwargs(c)
            key = ("multi-direct", c["fn"], centered, scaled, ddof, c["wrap"], repr(c["X"]))
            res.case(key, True, {"fn": c["fn"], "kwargs": kwargs, "shape": list(X.shape), "container": c["wrap"]})
            base_cls = f"multi-column:{c['fn']}:center={centered}:scale={scaled}"

            def wit(clause):
                return {"fn": c["fn"], "kwargs": kwargs, "X": c["X"], "Y": c["Y"], "container": c["wrap"],
                        "code": code(MULTI_DIRECT_CODE.format(helpers=helpers, X=repr(c["X"]), Y=repr(c["Y"]), fn=c["fn"],
                                                              kwargs=kwargs, ddof=ddof, centered=centered, scaled=scaled,
                                                              wrap=_WRAPS[c["wrap"]], clause=clause))}
            try:
                with quiet_numpy():
                    st = {}
                    R = np.asarray(fns[c["fn"]](wraps[c["wrap"]](X), _state=st, **kwargs), dtype=float)
                    R2 = np.asarray(fns[c["fn"]](wraps[c["wrap"]](Y), _state=st, **kwargs), dtype=float)
            except Exception as e:  # noqa: BLE001
                res.fail("C13.scale.train-values", base_cls + ":raises-" + type(e).__name__, wit("C13.scale.train-values"),
                         f"{type(e).__name__}: {e}")
                continue
            I, I2, names = X, Y, [f"column {j}" for j in range(X.shape[1])]
        else:
            outer, inner = c["outer"], c["inner"]
            df, df_new = pd.DataFrame({"x": c["x"]}), pd.DataFrame({"x": c["x_new"]})
            ctx_train = {"X": np.array(c["X"]), "pdX": pd.DataFrame(np.array(c["X"]))}
            ctx_new = {"X": np.array(c["Y"]), "pdX": pd.DataFrame(np.array(c["Y"]))}
            formula = outer.format(inner) + " - 1"
            key = ("multi-formula", formula, repr(c["x"]), repr(c["X"]) if inner in ("X", "pdX") else "")
            res.case(key, True, {"formula": formula, "n": len(c["x"])})
            inner_tag = inner.split("(")[0]
            base_cls = f"multi-column:{outer.format(inner_tag)}"

            def wit(clause):
                return {"formula": formula, "x": c["x"], "x_new": c["x_new"],
                        "code": code(MULTI_FORMULA_CODE.format(helpers=helpers, x=fl(c["x"]), x_new=fl(c["x_new"]),
                                                               X=repr(c["X"]), Y=repr(c["Y"]), inner=inner, outer=outer,
                                                               ddof=ddof, centered=centered, scaled=scaled, clause=clause))}
            try:
                with quiet_numpy():
                    if inner in ("X", "pdX"):  # the context matrix itself
                        I, I2 = np.array(c["X"], dtype=float), np.array(c["Y"], dtype=float)
                    else:
                        mi = model_matrix(inner + " - 1", df, context=ctx_train)
                        I = np.asarray(mi, dtype=float)
                        I2 = np.asarray(mi.model_spec.get_model_matrix(df_new, context=ctx_new), dtype=float)
            except Exception as e:  # noqa: BLE001 - the inner expression alone fails: nothing to standardize, not judged
                res.stats[("inner-failed", f"{inner} [{type(e).__name__}]")] += 1
                continue
            try:
                with quiet_numpy():
                    mo = model_matrix(formula, df, context=ctx_train)
                    R = np.asarray(mo, dtype=float)
                    R2 = np.asarray(mo.model_spec.get_model_matrix(df_new, context=ctx_new), dtype=float)
                names = list(mo.columns)
            except Exception as e:  # noqa: BLE001
                res.fail("C13.scale.train-values", base_cls + ":raises-" + type(e).__name__, wit("C13.scale.train-values"),
                         f"{formula}: {type(e).__name__}: {e}"[:600])
                continue
        if R.shape != I.shape or R2.shape != I2.shape:
            res.fail("C13.scale.train-values", base_cls + ":shape", wit("C13.scale.train-values"),
                     f"output shapes {R.shape}, {R2.shape} for inputs {I.shape}, {I2.shape}")
            continue
        reported = set()
        for j in range(I.shape[1]):
            for clause, tag, detail in _column_failures(I[:, j].tolist(), I2[:, j].tolist(), R[:, j], R2[:, j], centered,
                                                        scaled, ddof):
                if clause not in reported:
                    reported.add(clause)
                    res.fail(clause, base_cls + tag, wit(clause), f"{names[j]}: {detail}")
    return res.pack()

# ------------------------------------------------------------------------------------------
# poly
# ------------------------------------------------------------------------------------------
# tolerance for all float comparisons of poly: POLY_C * n * eps * kappa, where
# kappa = (1 + max|x|/rms(x-mean)) * max_k ||(x-mean)^k|| / ||p_k||  (exactly computed from the data) is the
# cancellation any method forming x - mean and then p_k from powers of it suffers.
# Calibration: over 12558 generated vectors the largest observed error / (n*eps*kappa) was 0.42.
POLY_C = 32
POLY_KAPPA_MAX = 1e8  # beyond this the tolerance (>= 1e-5) is no longer a meaningful check: case skipped

POLY_CODE = """
import numpy as np, pandas as pd
from formulaic.transforms import poly
{oracle_src}
x = {x}
degree = {degree}
nan_at = {nan_at}
y = {y}
E, kappa = exact_orthopoly(x, degree, with_kappa=True)    # exact orthonormal basis of span{{1,x..x^d}} minus the constant
E = np.array(E)
TOL = 32 * len(x) * 2.220446049250313e-16 * kappa          # kappa: cancellation factor of the data (>= 1)
st = {{}}
Q = np.asarray(poly({ctor}(x), degree, _state=st), dtype=float)
clause = {clause!r}
if clause == "C13.poly.orthonormal":
    assert np.abs(Q.T @ Q - np.eye(degree)).max() <= TOL, Q.T @ Q
elif clause == "C13.poly.orthogonal-to-constant":
    assert np.abs(Q.sum(axis=0)).max() <= TOL * len(x) ** 0.5, Q.sum(axis=0)
elif clause == "C13.poly.same-span-as-raw-powers":
    assert Q.shape == E.shape and np.abs(Q - E @ (E.T @ Q)).max() <= TOL, np.abs(Q - E @ (E.T @ Q)).max()
    assert np.linalg.matrix_rank(E.T @ Q, tol=1e-6) == degree
elif clause == "C13.poly.nan-rowwise":
    xn = list(x)
    for i in nan_at:
        xn.insert(i, float("nan"))
    Qn = np.asarray(poly({ctor}(xn), degree, _state={{}}), dtype=float)
    isn = np.isnan(np.array(xn))
    assert Qn.shape == (len(xn), degree)
    assert np.isnan(Qn[isn]).all(), "rows of missing inputs must be all-missing"
    assert not np.isnan(Qn[~isn]).any(), "rows of present inputs must not be missing"
    assert np.allclose(Qn[~isn], Q, rtol=1e-12, atol=1e-14), "present rows must equal the basis of the non-missing sub-vector"
elif clause == "C13.poly.replay":
    before = repr(sorted((k, repr(v)) for k, v in st.items()))
    R = np.asarray(poly({ctor}(y), degree, _state=st), dtype=float)
    C = E.T @ Q                                             # coordinates of the fitted columns in the exact basis
    Ey = np.array(exact_orthopoly(x, degree, y))
    exp = Ey @ C
    scale = np.abs(Ey) @ np.abs(C) + 1
    assert R.shape == exp.shape and (np.abs(R - exp) <= 4 * TOL * scale).all(), (R, exp)
    R1 = np.asarray(poly({ctor}(x), degree, _state=st), dtype=float)
    assert np.allclose(R1, Q, rtol=1e-12, atol=1e-14), "replay on the training vector"
    assert before == repr(sorted((k, repr(v)) for k, v in st.items())), "state modified by replay"
"""

_ORTHO_SRC = inspect.getsource(O.exact_orthopoly)


def _poly_witness(c, clause):
    ctor = {"ndarray": "np.array", "list": "list", "series": "pd.Series"}[c["kind"]]
    return code(POLY_CODE.format(oracle_src=_ORTHO_SRC, x=fl(c["x"]), degree=c["degree"], nan_at=repr(c["nan_at"]),
                                 y=fl(c["y"]), ctor=ctor, clause=clause))


def _poly_cases(rng, n_random, exhaustive_n):
    import itertools

    cases = []
    vals = (0.0, 1.0, 2.0, 3.0, 4.0)
    for n in range(2, exhaustive_n + 1):
        for tup in itertools.product(vals, repeat=n):
            nd = len(set(tup))
            for degree in range(1, min(nd - 1, 3) + 1):
                cases.append(dict(x=list(tup), degree=degree, nan_at=[0, n // 2 + 1], y=[0.5, tup[0], 4.0, 2.5],
                                  kind="ndarray", tag="exh"))
    for i in range(n_random):
        degree = rng.randint(1, 6)
        n = rng.choice([degree + 1, degree + 2, rng.randint(degree + 1, 50), rng.randint(degree + 1, 50), 50])
        fam = rng.choice(("gauss", "uniform", "grid", "lognormal", "ties", "integers"))
        x, meta = gen_vector(rng, n, family=fam)
        nd = len(set(x.tolist()))
        if nd < degree + 1:
            degree = nd - 1
            if degree < 1:
                continue
        lo, hi = float(x.min()), float(x.max())
        span = hi - lo
        y = [rng.uniform(lo - 0.25 * span, hi + 0.25 * span) for _ in range(rng.randint(1, 8))] + [float(x[0])]
        k = rng.randint(0, 3)
        nan_at = sorted(rng.randint(0, n) for _ in range(k))
        cases.append(dict(x=x.tolist(), degree=degree, nan_at=nan_at, y=y,
                          kind=rng.choice(("ndarray", "list", "series")), tag=fam, meta=meta))
    return cases


def _conditioning_ok(x, degree):
    """The float contract is only asserted for inputs on which a backward-stable method can meet it:
    the distinct points must not be (nearly) fewer than degree+1.  Measured on the *input*: after
    affine normalisation to [-1, 1], the smallest gap between the degree+1 most separated distinct
    points is compared with eps.  (Pure function of the data, not of the implementation.)"""
    xs = sorted(set(x))
    if len(xs) < degree + 1:
        return False
    span = xs[-1] - xs[0]
    if span <= 0:
        return False
    big = max(abs(xs[0]), abs(xs[-1]))
    # representability of the spread relative to the magnitude (x - mean cancels big/span digits)
    return big / span < 1e3


def _poly_worker(cases):
    from formulaic.transforms import poly

    res = WorkResult()
    worst = 0.0
    for c in cases:
        x, degree = c["x"], c["degree"]
        if not _conditioning_ok(x, degree):
            res.stats[("skip", "poly-ill-conditioned")] += 1
            continue
        n = len(x)
        E, kappa = O.exact_orthopoly(x, degree, with_kappa=True)
        E = np.array(E)
        if kappa > POLY_KAPPA_MAX:
            res.stats[("skip", "poly-ill-conditioned")] += 1
            continue
        TOL = POLY_C * n * EPS * kappa
        key = ("poly", degree, c["kind"], tuple(x), tuple(c["nan_at"]), tuple(c["y"]))
        res.case(key, True, {"degree": degree, "n": n, "family": c["tag"], "x[:3]": x[:3]})
        wit = lambda clause: {"x": x, "degree": degree, "input": c["kind"], "nan_at": c["nan_at"], "y": c["y"],
                              "code": _poly_witness(c, clause)}
        st = {}
        try:
            with quiet_numpy():
                Q = np.asarray(poly(as_input(x, c["kind"]), degree, _state=st), dtype=float)
        except Exception as e:
            res.fail("C13.poly.orthonormal", "raises-" + type(e).__name__, wit("C13.poly.orthonormal"),
                     f"{type(e).__name__}: {e}")
            continue
        if Q.shape != (n, degree):
            res.fail("C13.poly.orthonormal", "shape", wit("C13.poly.orthonormal"), f"shape {Q.shape}")
            continue
        cls = f"degree={degree}" if degree <= 2 else "degree>=3"
        e1 = float(np.abs(Q.T @ Q - np.eye(degree)).max())
        if not e1 <= TOL:
            res.fail("C13.poly.orthonormal", cls, wit("C13.poly.orthonormal"), f"max|Q'Q - I| = {e1:.3e}")
        e2 = float(np.abs(Q.sum(axis=0)).max())
        if not e2 <= TOL * math.sqrt(n):
            res.fail("C13.poly.orthogonal-to-constant", cls, wit("C13.poly.orthogonal-to-constant"),
                     f"max|1'Q| = {e2:.3e}")
        C = E.T @ Q
        e3 = float(np.abs(Q - E @ C).max())
        if not e3 <= TOL or np.linalg.matrix_rank(C, tol=1e-6) != degree:
            res.fail("C13.poly.same-span-as-raw-powers", cls, wit("C13.poly.same-span-as-raw-powers"),
                     f"residual of projecting onto the exact basis of span(1,x..x^d) minus constant: {e3:.3e}")
        worst = max(worst, max(e1, e2 / math.sqrt(n), e3) / (n * EPS * kappa))
        # NaN propagation
        if c["nan_at"]:
            xn = list(x)
            for i in c["nan_at"]:
                xn.insert(i, float("nan"))
            try:
                with quiet_numpy():
                    Qn = np.asarray(poly(as_input(xn, c["kind"]), degree, _state={}), dtype=float)
                isn = np.isnan(np.array(xn))
                ok = (Qn.shape == (len(xn), degree) and np.isnan(Qn[isn]).all() and not np.isnan(Qn[~isn]).any()
                      and np.allclose(Qn[~isn], Q, rtol=1e-12, atol=1e-14))
                detail = "" if ok else f"rows with nan input: {Qn[isn].tolist()[:3]}; max diff on present rows " \
                                       f"{float(np.nanmax(np.abs(Qn[~isn] - Q))) if Qn.shape == (len(xn), degree) else 'shape'}"
            except Exception as e:
                ok, detail = False, f"{type(e).__name__}: {e}"
            if not ok:
                res.fail("C13.poly.nan-rowwise", cls, wit("C13.poly.nan-rowwise"), detail)
        # replay
        before = repr(sorted((k, repr(v)) for k, v in st.items()))
        try:
            with quiet_numpy():
                R = np.asarray(poly(as_input(c["y"], c["kind"]), degree, _state=st), dtype=float)
                R1 = np.asarray(poly(as_input(x, c["kind"]), degree, _state=st), dtype=float)
        except Exception as e:
            res.fail("C13.poly.replay", "raises-" + type(e).__name__, wit("C13.poly.replay"), f"{type(e).__name__}: {e}")
            continue
        Ey = np.array(O.exact_orthopoly(x, degree, c["y"]))
        exp = Ey @ C
        scale = np.abs(Ey) @ np.abs(C) + 1
        if R.shape != exp.shape or not (np.abs(R - exp) <= 4 * TOL * scale).all():
            res.fail("C13.poly.replay", cls + ":new-points", wit("C13.poly.replay"),
                     f"replayed {R.tolist()[:3]} expected {exp.tolist()[:3]}")
        elif not np.allclose(R1, Q, rtol=1e-12, atol=1e-14):
            res.fail("C13.poly.replay", cls + ":training-rows", wit("C13.poly.replay"), "replay on training vector differs")
        elif before != repr(sorted((k, repr(v)) for k, v in st.items())):
            res.fail("C13.poly.replay", cls + ":state-mutated", wit("C13.poly.replay"), "state modified by replay")
    res.stats[("max", "poly-worst-e")] = worst
    return res.pack()


# ------------------------------------------------------------------------------------------
# elementwise
# ------------------------------------------------------------------------------------------
MEANING = {
    "log": ("math.log(v)", math.log),
    "log2": ("math.log2(v)", math.log2),
    "log10": ("math.log10(v)", math.log10),
    "exp": ("math.exp(v)", math.exp),
    "exp2": ("2.0 ** v", lambda v: 2.0**v),
    "exp10": ("10.0 ** v", lambda v: 10.0**v),
}
PAIRS = (("log", "exp"), ("log2", "exp2"), ("log10", "exp10"))

ELEM_CODE = """
import math, numpy as np, pandas as pd
from formulaic.transforms import TRANSFORMS
x = {x}
f = TRANSFORMS[{name!r}]
got = np.asarray(f(np.array(x)), dtype=float)
exp = [{meaning} for v in x]
assert all(abs(a - b) <= 8 * 2.220446049250313e-16 * abs(b) + 1e-300 for a, b in zip(got, exp)), (list(got), exp)
"""

ELEM_FORMULA_CODE = """
import math, numpy as np, pandas as pd
from formulaic import model_matrix
x = {x}
mm = model_matrix("{name}(x) - 1", pd.DataFrame({{"x": x}}), context={{}})
got = np.asarray(mm.iloc[:, 0], dtype=float)
exp = [{meaning} for v in x]
assert all(abs(a - b) <= 8 * 2.220446049250313e-16 * abs(b) + 1e-300 for a, b in zip(got, exp)), (list(got), exp)
"""

PAIR_CODE = """
import math, numpy as np
from formulaic.transforms import TRANSFORMS
lg, ex = TRANSFORMS[{lg!r}], TRANSFORMS[{ex!r}]
eps = 2.220446049250313e-16
x = np.array({x})          # arguments of the exponential (moderate, no overflow)
p = np.array({p})          # positive arguments of the logarithm (1e-6 .. 1e6)
a = np.asarray(lg(ex(x)), dtype=float)
assert (np.abs(a - x) <= 16 * eps * (1 + np.abs(x))).all(), ("{lg}({ex}(x)) != x", a.tolist(), x.tolist())
b = np.asarray(ex(lg(p)), dtype=float)
assert (np.abs(b - p) <= 16 * eps * (1 + np.abs(np.log(p))) * 3.4 * p).all(), ("{ex}({lg}(p)) != p", b.tolist(), p.tolist())
"""


def _run_elementwise(ctx, b, rep, rng, n_vectors):
    from formulaic import model_matrix
    from formulaic.transforms import TRANSFORMS

    for i in range(n_vectors):
        n = rng.choice([2, 3, 5, 10, 50, rng.randint(2, 50)])
        pos = [10 ** rng.uniform(-6, 6) for _ in range(n)]  # log arguments
        # exponents: moderate so that exp/exp2/exp10 neither overflow nor underflow
        exps = [rng.choice([1, -1]) * 10 ** rng.uniform(-6, math.log10(40)) for _ in range(n)]
        if i == 0:
            pos[:2] = [1.0, 1e6]
            exps[:4] = [0.0, 1.0, 2.0, -3.0]
        n = len(pos)
        exps = exps[:n] if len(exps) >= n else exps + [0.5] * (n - len(exps))
        pos = pos[:n]
        for name, (meaning_src, meaning) in MEANING.items():
            x = pos if name.startswith("log") else exps
            f = TRANSFORMS[name]
            b.case(("denotes", name, tuple(x)), True, {"fn": name, "n": n, "x[:3]": x[:3]})
            exp = [meaning(v) for v in x]
            w = {"fn": name, "x": x, "code": code(ELEM_CODE.format(x=fl(x), name=name, meaning=meaning_src))}
            try:
                with quiet_numpy():
                    got = np.asarray(f(np.array(x)), dtype=float)
                ok = got.shape == (n,) and all(abs(a - c) <= 8 * EPS * abs(c) + 1e-300 for a, c in zip(got, exp))
                detail = "" if ok else f"{name}({x[:4]}) = {got.tolist()[:4]}, the name denotes {exp[:4]}"
            except Exception as e:
                ok, detail = False, f"{type(e).__name__}: {e}"
            if not ok:
                rep.fail("C13.elementwise.denotes-name", name, w, detail)
            if i < 6:  # through the formula namespace
                b.case(("denotes-formula", name, tuple(x)), True)
                w = {"fn": name, "x": x, "formula": f"{name}(x) - 1",
                     "code": code(ELEM_FORMULA_CODE.format(x=fl(x), name=name, meaning=meaning_src))}
                try:
                    with quiet_numpy():
                        mm = model_matrix(f"{name}(x) - 1", pd.DataFrame({"x": x}), context={})
                    got = np.asarray(mm.iloc[:, 0], dtype=float)
                    ok = list(mm.columns) == [f"{name}(x)"] and all(
                        abs(a - c) <= 8 * EPS * abs(c) + 1e-300 for a, c in zip(got, exp))
                    detail = "" if ok else f"column {list(mm.columns)} = {got.tolist()[:4]}, expected {exp[:4]}"
                except Exception as e:
                    ok, detail = False, f"{type(e).__name__}: {e}"
                if not ok:
                    rep.fail("C13.elementwise.denotes-name", name + ":formula", w, detail)
        for lg, ex in PAIRS:
            b.case(("pair", lg, ex, tuple(pos), tuple(exps)), True)
            w = {"pair": [lg, ex], "x": exps, "p": pos,
                 "code": code(PAIR_CODE.format(lg=lg, ex=ex, x=fl(exps), p=fl(pos)))}
            try:
                with quiet_numpy():
                    xa, pa = np.array(exps), np.array(pos)
                    a = np.asarray(TRANSFORMS[lg](TRANSFORMS[ex](xa)), dtype=float)
                    c = np.asarray(TRANSFORMS[ex](TRANSFORMS[lg](pa)), dtype=float)
                ok1 = bool((np.abs(a - xa) <= 16 * EPS * (1 + np.abs(xa))).all())
                # exp(log p): the log carries an absolute error ~eps*|log p| which the exponential turns into
                # a relative error of that size (x ln(base) <= 3.4 for base 10)
                ok2 = bool((np.abs(c - pa) <= 16 * EPS * (1 + np.abs(np.log(pa))) * 3.4 * pa).all())
                ok = ok1 and ok2
                detail = "" if ok else (f"{lg}({ex}(x)) = {a.tolist()[:4]} for x = {exps[:4]}" if not ok1
                                        else f"{ex}({lg}(p)) = {c.tolist()[:4]} for p = {pos[:4]}")
            except Exception as e:
                ok, detail = False, f"{type(e).__name__}: {e}"
            if not ok:
                rep.fail("C13.elementwise.inverse-pair", f"{lg}-{ex}", w, detail)



# ---- elementwise transforms on non-float64 inputs (integer, small-integer, boolean, float32 columns)
DTYPE_CODE = """
import math, numpy as np, pandas as pd
from formulaic import model_matrix
from formulaic.transforms import TRANSFORMS
vals, dtype, via = {vals!r}, {dtype!r}, {via!r}
x = np.array(vals, dtype=dtype)
if via == "formula":
    got = np.asarray(model_matrix("{name}(x) - 1", pd.DataFrame({{"x": x}}), context={{}}).iloc[:, 0])
else:
    got = np.asarray(TRANSFORMS[{name!r}](pd.Series(x) if via == "series" else x))
exp = [{meaning} for v in (float(t) for t in x)]
if np.issubdtype(got.dtype, np.floating):
    fi = np.finfo(got.dtype)       # the result is judged at the precision of the floating type numpy returns
    assert all(abs(float(a) - b) <= 8 * float(fi.eps) * abs(b) + float(fi.tiny) for a, b in zip(got, exp)), (got.tolist(), exp)
else:                              # a non-floating result can only be right if it is exact
    assert all(float(a) == b for a, b in zip(got, exp)), (str(got.dtype), got.tolist(), exp)
"""

DTYPE_PAIR_CODE = """
import numpy as np
from formulaic.transforms import TRANSFORMS
lg, ex = TRANSFORMS[{lg!r}], TRANSFORMS[{ex!r}]
eps = 2.220446049250313e-16
k = np.array({k!r}, dtype={dtype!r})      # integer exponents
m = np.array({m!r}, dtype={dtype!r})      # positive integer arguments of the logarithm
a = np.asarray(lg(ex(k)), dtype=float)
assert (np.abs(a - k) <= 16 * eps * (1 + np.abs(k))).all(), ("{lg}({ex}(k)) != k", a.tolist(), k.tolist())
b = np.asarray(ex(lg(m)), dtype=float)
assert (np.abs(b - m) <= 16 * eps * (1 + np.abs(np.log(m.astype(float)))) * 3.4 * m).all(), ("{ex}({lg}(m)) != m", b.tolist(), m.tolist())
"""

# per dtype: (exponent range for exp/exp2/exp10, largest logarithm argument); small types are promoted by numpy to
# float16 / float32 results, so the exponents are kept where those can represent the value
DTYPES = {
    "int64": ({"exp": (-40, 50), "exp2": (-60, 70), "exp10": (-25, 25)}, 10**15),
    "int32": ({"exp": (-40, 50), "exp2": (-60, 70), "exp10": (-25, 25)}, 2 * 10**9),
    "int16": ({"exp": (-40, 50), "exp2": (-60, 70), "exp10": (-25, 25)}, 30000),
    "int8": ({"exp": (-4, 4), "exp2": (-4, 4), "exp10": (-4, 4)}, 127),
    "uint8": ({"exp": (0, 4), "exp2": (0, 4), "exp10": (0, 4)}, 255),
    "bool": ({"exp": (0, 1), "exp2": (0, 1), "exp10": (0, 1)}, 1),
    "float32": ({"exp": (-40, 50), "exp2": (-60, 70), "exp10": (-25, 25)}, 10**6),
}


def _run_elementwise_dtypes(ctx, b, rep, rng, n_rounds):
    import pandas as pd
    from formulaic import model_matrix
    from formulaic.transforms import TRANSFORMS

    for i in range(n_rounds):
        for dtype, (ranges, logmax) in DTYPES.items():
            group = "int" if "int" in dtype else dtype
            for name, (meaning_src, meaning) in MEANING.items():
                n = rng.randint(2, 12)
                if name.startswith("log"):
                    vals = [rng.randint(1, logmax) for _ in range(n)]
                    vals[:2] = [1, logmax]
                else:
                    lo, hi = ranges[name]
                    vals = [rng.randint(lo, hi) for _ in range(n)]
                    vals[:2] = [lo, hi]          # the extremes: negative and large exponents
                x = np.array(vals, dtype=dtype)
                exp_ = [meaning(float(t)) for t in x]
                for via in (("array", "series", "formula") if i == 0 else (rng.choice(["array", "series", "formula"]),)):
                    b.case(("dtype", name, dtype, via, tuple(vals)), True,
                           {"fn": name, "dtype": dtype, "via": via, "x[:4]": vals[:4]})
                    w = {"fn": name, "dtype": dtype, "via": via, "x": vals,
                         "code": code(DTYPE_CODE.format(vals=vals, dtype=dtype, via=via, name=name, meaning=meaning_src))}
                    try:
                        with quiet_numpy():
                            if via == "formula":
                                got = np.asarray(model_matrix(f"{name}(x) - 1", pd.DataFrame({"x": x}), context={}).iloc[:, 0])
                            else:
                                got = np.asarray(TRANSFORMS[name](pd.Series(x) if via == "series" else x))
                        if np.issubdtype(got.dtype, np.floating):
                            fi = np.finfo(got.dtype)
                            ok = got.shape == (n,) and all(abs(float(a) - e) <= 8 * float(fi.eps) * abs(e) + float(fi.tiny)
                                                           for a, e in zip(got, exp_))
                        else:
                            ok = got.shape == (n,) and all(float(a) == e for a, e in zip(got, exp_))
                        detail = "" if ok else (f"{name}({vals[:4]} as {dtype}) = {got.tolist()[:4]} ({got.dtype}), the name "
                                                f"denotes {exp_[:4]}")
                        cls = f"{name}:{group}-input" + ("" if ok or np.issubdtype(got.dtype, np.floating) else ":non-float-result")
                    except Exception as e:  # noqa: BLE001 - outcome of the code under test
                        ok, detail, cls = False, f"{name}({vals[:4]} as {dtype}) via {via}: {type(e).__name__}: {e}"[:500], \
                            f"{name}:{group}-input:raises-{type(e).__name__}"
                    if not ok:
                        rep.fail("C13.elementwise.denotes-name", cls, w, detail)
            if dtype in ("int64", "int32"):
                for lg, ex in PAIRS:
                    lo, hi = DTYPES[dtype][0][ex]
                    k = [rng.randint(max(lo, -20), min(hi, 20)) for _ in range(6)] + [max(lo, -20), min(hi, 20)]
                    m = [rng.randint(1, 10**6) for _ in range(6)] + [1, 10**6]
                    b.case(("dtype-pair", lg, dtype, tuple(k), tuple(m)), True)
                    w = {"pair": [lg, ex], "dtype": dtype, "k": k, "m": m,
                         "code": code(DTYPE_PAIR_CODE.format(lg=lg, ex=ex, k=k, m=m, dtype=dtype))}
                    try:
                        with quiet_numpy():
                            ka, ma = np.array(k, dtype=dtype), np.array(m, dtype=dtype)
                            a = np.asarray(TRANSFORMS[lg](TRANSFORMS[ex](ka)), dtype=float)
                            c_ = np.asarray(TRANSFORMS[ex](TRANSFORMS[lg](ma)), dtype=float)
                        ok = bool((np.abs(a - ka) <= 16 * EPS * (1 + np.abs(ka))).all()) and bool(
                            (np.abs(c_ - ma) <= 16 * EPS * (1 + np.abs(np.log(ma.astype(float)))) * 3.4 * ma).all())
                        detail = "" if ok else f"{lg}({ex}({k[:4]})) = {a.tolist()[:4]}; {ex}({lg}({m[:4]})) = {c_.tolist()[:4]}"
                        cls = f"{lg}-{ex}:int-input"
                    except Exception as e:  # noqa: BLE001
                        ok, detail, cls = False, f"{type(e).__name__}: {e}"[:500], f"{lg}-{ex}:int-input:raises-{type(e).__name__}"
                    if not ok:
                        rep.fail("C13.elementwise.inverse-pair", cls, w, detail)

# ------------------------------------------------------------------------------------------
def run_bounded(ctx):
    rng = random.Random(ctx.seed * 1000003 + 13)
    thorough = ctx.thorough
    if not ctx.explanation:  # the proofs module normally sets this; keep the evidence schema-valid on its own
        ctx.explanation = ("bounded stand-in: runtime contracts on scale/center/standardize/poly/TRANSFORMS over "
                           "enumerated and generated vectors, judged against exact-arithmetic oracles")
    ctx.assume(
        A_FLOAT,
        "A-nondegenerate(C13): unit variance is only demanded of non-constant vectors with n > ddof; poly only for "
        "degree < number of distinct values and spread/magnitude > 1e-3 (otherwise x - mean has too few digits left)",
        "A-small-dtypes(C13): for int8/uint8/bool/int16/float32 inputs numpy's own log/exp return float16/float32; results "
        "are judged at the precision of the floating type returned and exponents are kept inside its range",
        "A-scale-uncentred(C13): for scale(center=False, scale=True) the statement does not fix the divisor "
        "(the docs say 'standard deviation', R says root-mean-square); either is accepted, any other divisor or a "
        "non-finite output is a violation; replay must use the same divisor",
    )

    # ---- scale / center / standardize: direct calls
    with ctx.bounded(
        "scale-center",
        rule="direct calls scale/center/standardize(x, flags, ddof, _state={}) then replay with the recorded state; "
             "distinct = (function, flags, ddof, input container, training vector, follow-up vector); every case is "
             "non-trivial (non-constant vector, n > ddof)",
        exhaustive=False,
        bound=("exhaustive: all non-constant vectors over {-2,-1,0,1,2}^n, n<=%d x center x scale x ddof{0,1}; "
               "random: %d vectors, n 2..50, |x| 1e-6..1e6, 6 families, ddof {0,0.5,1,2}, 4 containers; plus 1/4 as many integer-valued "
               "vectors with fractional mean in 14 element types (int8..int64, uint8..uint64, bool, Python ints, Series "
               "int64, nullable Int64/Float64, float32)")
        % (5 if thorough else 4, 20000 if thorough else 1200),
    ) as b:
        rep = Reporter(ctx, b)
        cases = _scale_cases(rng, 20000 if thorough else 1200, 5 if thorough else 4)
        merge(b, rep, pmap(guard("vf.bounded.c13", "_scale_worker", "C13.scale.train-values"), chunked(cases, 32)))
        rep.close()

    with ctx.bounded(
        "scale-in-formulas",
        rule="model_matrix('<scale|center|standardize>(x...) - 1') then spec.get_model_matrix(new); distinct = "
             "(formula, training vector, follow-up vector)",
        bound="%d vectors x 5 formulas" % (200 if thorough else 40),
    ) as b:
        rep = Reporter(ctx, b)
        fcases = []
        forms = [("scale(x)", 1, True, "scale"), ("center(x)", 1, False, "center"),
                 ("scale(x, ddof=0)", 0, True, "scale-ddof0"), ("standardize(x)", 0, True, "standardize"),
                 ("scale(x, scale=False)", 1, False, "scale-noscale")]
        for i in range(200 if thorough else 40):
            n = rng.choice([2, 3, 5, 10, 50, rng.randint(2, 50)])
            x, meta = gen_vector(rng, n)
            if len(set(x.tolist())) < 2:
                continue
            y, _ = gen_vector(rng, rng.randint(1, 9), family=meta["family"], mag=meta["mag"], offset=meta["offset"])
            for f, ddof, scaled, name in forms:
                fcases.append(dict(x=x.tolist(), y=y.tolist(), formula=f + " - 1", ddof=ddof, scaled=scaled, name=name))
        merge(b, rep, pmap(guard("vf.bounded.c13", "_formula_worker", "C13.scale.formula"), chunked(fcases, 16)))
        rep.close()

    with ctx.bounded(
        "scale-multi-column",
        rule="scale/center/standardize on several columns at once: 2-D arrays (C and Fortran order) and data frames "
             "called directly, and inside formulas on a context matrix X / data frame and on dict- or 2-D-valued inner "
             "transforms (poly raw / orthogonal, bs, cr, cc); the single-vector contract is asserted for EVERY column "
             "(inner columns = the inner expression materialized on its own, replayed on the new rows); distinct = "
             "(function or formula, flags, container, data)",
        bound="%d direct matrices (2..4 columns, n 2..50, independent magnitudes 1e-6..1e6) + %d formulas over 6 outer x 8 "
              "inner expressions" % ((3000, 960) if thorough else (300, 96)),
    ) as b:
        rep = Reporter(ctx, b)
        mstats = Counter()
        merge(b, rep, pmap(guard("vf.bounded.c13", "_multi_worker", "C13.scale.train-values"), chunked(_multi_cases(rng, *((3000, 960) if thorough else (300, 96))), 16)), mstats)
        inner_failed = sorted(k[1] for k in mstats if k[0] == "inner-failed")
        if inner_failed:
            ctx.notes.append(f"bounded:scale-multi-column: inner expressions that failed on their own (not judged): {inner_failed}")
        rep.close()

    # ---- poly
    with ctx.bounded(
        "poly",
        rule="poly(x, degree, _state={}) judged against an exact rational Gram-Schmidt basis: orthonormal, "
             "orthogonal to 1, same span, NaN rows, replay on new points/training points; distinct = (degree, "
             "container, vector, NaN positions, follow-up points)",
        bound=("exhaustive: all vectors over {0..4}^n, n<=%d, degree<=min(3, #distinct-1); random: %d vectors, "
               "n degree+1..50, degree 1..6, |x| 1e-6..1e6; tolerance %d*n*eps*kappa(data)")
        % (5 if thorough else 4, 12000 if thorough else 500, POLY_C),
    ) as b:
        rep = Reporter(ctx, b)
        stats_ = Counter()
        cases = _poly_cases(rng, 12000 if thorough else 500, 5 if thorough else 4)
        packed = pmap(guard("vf.bounded.c13", "_poly_worker", "C13.poly.orthonormal"), chunked(cases, 48))
        worst = max((p[4].pop(("max", "poly-worst-e"), 0.0) for p in packed), default=0.0)
        merge(b, rep, packed, stats_)
        ctx.notes.append(f"bounded:poly: largest orthonormality/span residual observed = {worst:.1f} * n*eps*kappa (tolerance {POLY_C}); "
                         f"skipped as ill-conditioned: {stats_.get(('skip', 'poly-ill-conditioned'), 0)}")
        rep.close()

    # ---- elementwise
    with ctx.bounded(
        "elementwise",
        rule="TRANSFORMS[name] on generated vectors vs the math-module meaning of the name; inverse pairs both ways; "
             "distinct = (check, name, vector)",
        bound="%d vectors, n 2..50; log arguments 1e-6..1e6, exponents |x| 1e-6..40" % (400 if thorough else 25),
    ) as b:
        rep = Reporter(ctx, b)
        _run_elementwise(ctx, b, rep, rng, 400 if thorough else 25)
        rep.close()

    with ctx.bounded(
        "elementwise-dtypes",
        rule="TRANSFORMS[name] on int64/int32/int16/int8/uint8/bool/float32 inputs (arrays, Series, DataFrame columns "
             "inside a formula) incl. the most negative and the largest exponents of the range, vs the meaning of the name "
             "at the precision of the floating type returned (a non-floating result must be exact); inverse pairs on "
             "integer inputs; distinct = (name, dtype, route, values)",
        bound="%d rounds x 7 dtypes x 6 functions; exponents e.g. exp10: -25..25 (int8: -4..4), log arguments up to 1e15"
              % (40 if thorough else 4),
    ) as b:
        rep = Reporter(ctx, b)
        _run_elementwise_dtypes(ctx, b, rep, rng, 40 if thorough else 4)
        rep.close()
