"""C01 bounded stand-in: the real parser (`DefaultFormulaParser.get_terms`, `Formula`,
`Formula.from_spec`) against the reference semantics of `_parser_enum.sem_formula`
(written from grammar.md / the property statement only) over exhaustively enumerated
grammar trees, plus documented identities, equivalent specification forms, feature flags and
the sign-run negative space.
"""
from __future__ import annotations

import hashlib
import itertools
import random
import zlib
from concurrent.futures import ProcessPoolExecutor

from . import _parser_enum as E

NPROC = 16
MAX_WITNESS_PER_CLASS = 3  # per worker; the parent keeps at most 5 per (clause, cls)

AVAIL_KEY = "__formulaic_variables_available__"
AVAILS = (None, (), ("b",), ("z", "a", "b"))

REPRO_HEAD = '''import ast
from formulaic import Formula
from formulaic.parser import DefaultFormulaParser
from formulaic.errors import FormulaParsingError

def _k(f):
    if f.eval_method.value == "python":
        try:
            return ast.unparse(ast.parse(f.expr.strip(), mode="eval"))
        except SyntaxError:
            return f.expr
    return f.expr

def _part(p):
    if isinstance(p, tuple):
        return [_part(x) for x in p]
    if hasattr(p, "_structure"):
        return {"nested": _norm(p)}
    return [sorted(_k(f) for f in t.factors) for t in p]

def _norm(x):
    if not hasattr(x, "_structure"):
        return {"root": _part(x)}
    return {k: _part(v) for k, v in x._structure.items()}

def _isnum(x):
    try:
        float(x)
        return True
    except ValueError:
        return False

def _sorted(st):
    def sp(p):
        if isinstance(p, dict):
            return p
        if p and isinstance(p[0], list) and p[0] and isinstance(p[0][0], list):
            return [sp(x) for x in p]
        return sorted(p, key=lambda t: sum(1 for f in t if not _isnum(f)))
    return {k: sp(v) for k, v in st.items()}

def _outcome(fn):
    try:
        return ("returned", _norm(fn()))
    except Exception as e:  # judged below
        return ("raised", type(e).__name__, isinstance(e, FormulaParsingError))
'''


def _digest(key):
    return hashlib.blake2b(repr(key).encode(), digest_size=8).digest()


# --------------------------------------------------------------------------------------
# observation of the real code
# --------------------------------------------------------------------------------------
_PARSERS = {}


def _flags_value(flags):
    from formulaic.parser import DefaultFormulaParser

    FF = DefaultFormulaParser.FeatureFlags
    v = FF.NONE
    for f in flags:
        v |= getattr(FF, f)
    return v


def get_parser(intercept, flags=("TWOSIDED", "MULTIPART")):
    key = (intercept, tuple(sorted(flags)))
    p = _PARSERS.get(key)
    if p is None:
        from formulaic.parser import DefaultFormulaParser

        p = DefaultFormulaParser(include_intercept=intercept, feature_flags=_flags_value(flags))
        _PARSERS[key] = p
    return p


def parser_src(intercept, flags=("TWOSIDED", "MULTIPART")):
    fl = " | ".join(f"DefaultFormulaParser.FeatureFlags.{f}" for f in sorted(flags)) or "DefaultFormulaParser.FeatureFlags.NONE"
    return f"DefaultFormulaParser(include_intercept={intercept!r}, feature_flags={fl})"


def factor_key(f):
    m = f.eval_method.value
    if m == "literal":
        return ("lit", f.expr)
    if m == "lookup":
        return ("name", f.expr)
    return E.py_key(f.expr)


def norm_part(p):
    if isinstance(p, tuple):
        return tuple(norm_part(x) for x in p)
    if hasattr(p, "_structure"):
        return ("nested", repr(p))
    return [frozenset(factor_key(f) for f in t.factors) for t in p]


def norm_actual(x):
    if not hasattr(x, "_structure"):
        return {"root": norm_part(x)}
    return {k: norm_part(v) for k, v in x._structure.items()}


def observe(fn):
    """('ok', normal form) | ('reject', exc name) | ('error', exc name, message)"""
    from formulaic.errors import FormulaParsingError

    try:
        r = fn()
    except FormulaParsingError as e:
        return ("reject", type(e).__name__)
    except Exception as e:  # outcome of the code under test
        return ("error", type(e).__name__, str(e)[:200])
    try:
        return ("ok", norm_actual(r))
    except Exception as e:  # the library returned something that is not a structure of terms
        return ("error", f"result-is-not-a-term-structure({type(e).__name__})", repr(r)[:200])


# --------------------------------------------------------------------------------------
# expectations
# --------------------------------------------------------------------------------------
class Expect:
    """What the documentation allows for one (tree, configuration)."""

    __slots__ = ("pre", "post", "allow_reject", "must_reject", "unspecified", "why")

    def __init__(self):
        self.pre = []  # acceptable pre-sort structures (get_terms)
        self.post = []  # acceptable final structures (Formula)
        self.allow_reject = False
        self.must_reject = False
        self.unspecified = False
        self.why = ""


def expectation(tree, intercept, avail=None, extra_readings=()):
    ex = Expect()
    readings = [tree, *extra_readings]
    for rd in readings:
        for mode in ("product", "star"):
            try:
                st = E.sem_formula(rd, intercept, avail, mode)
            except E.Unspecified as e:
                ex.unspecified = True
                ex.why = f"unspecified: {e}"
                return ex
            except E.OutsideGrammar as e:
                ex.allow_reject = True
                ex.why = f"outside grammar: {e}"
                continue
            except E.NeedsContext:
                ex.allow_reject = True
                ex.why = "'.' needs the available-variable context"
                continue
            flags = E.literal_flags(st)
            if flags & {"literal-only-term", "rescaled-duplicate", "two-literals"}:
                ex.allow_reject = True
            for cand in (st, E.drop_ones(st)) if "one-in-product" in flags else (st,):
                if cand not in ex.pre:
                    ex.pre.append(cand)
                for lc in (False, True):
                    s2 = E.sort_struct(cand, lc)
                    if s2 not in ex.post:
                        ex.post.append(s2)
    if not ex.pre:
        ex.must_reject = True
    return ex


def diff_kind(actual, expected_list):
    """Most specific description of how `actual` differs from the closest expectation."""
    best = "structure"
    for exp in expected_list:
        if E.struct_shape(actual) != E.struct_shape(exp):
            continue
        try:
            same_sets = E.as_sets(actual) == E.as_sets(exp)
        except TypeError:
            same_sets = False
        if same_sets:
            return "order"
        best = "terms"
    return best


def plain_actual(st):
    def sp(p):
        if isinstance(p, tuple) and p and p[0] == "nested":
            return {"nested": p[1]}
        if isinstance(p, tuple):
            return [sp(x) for x in p]
        return [sorted(E.key_text(k) if k[0] != "py-raw" else k[1] for k in t) for t in p]

    return {k: sp(v) for k, v in st.items()}


# --------------------------------------------------------------------------------------
# classification of witnesses (labels only; the verdict never depends on these)
# --------------------------------------------------------------------------------------
def tree_tags(tree, tokens):
    tags = []
    if E.has_dot(tree):
        tags.append("dot")
    # a sign run of >= 2 signs written directly after `~` or `|`
    for i, tok in enumerate(tokens):
        if tok in ("~", "|"):
            j = i + 1
            n = 0
            while j < len(tokens) and tokens[j] in ("+", "-"):
                n += 1
                j += 1
            if j < len(tokens) and tokens[j] == "0":
                n += 1
            if n >= 1 and j < len(tokens) and tokens[j] == "0" and tokens[j - 1] in ("+", "-"):
                tags.append("sign-zero-after-structural")
            if n >= 2:
                tags.append("run2-after-structural")
    for node in E.nodes_of(tree):
        if node[0] == "bin" and node[1] in E.POW_OPS and node[3][0] == "bin" and node[3][1] in E.POW_OPS:
            tags.append("pow-chain")
            break
    for node in E.nodes_of(tree):
        if node[0] == "bin" and node[1] in ("/", "%in%"):
            tags.append("nesting")
            break
    return tags


def _map_tree(t, fn):
    k = t[0]
    if k == "formula":
        return ("formula", None if t[1] is None else tuple(_map_tree(p, fn) for p in t[1]), tuple(_map_tree(p, fn) for p in t[2]), t[3])
    if k == "un":
        t = ("un", t[1], _map_tree(t[2], fn))
    elif k == "par":
        t = ("par", _map_tree(t[1], fn))
    elif k == "bin":
        t = ("bin", t[1], t[2], _map_tree(t[3], fn), _map_tree(t[4], fn))
    return fn(t)


def _neutral_pow(tree):
    """(A ** m) ** n written with explicit parentheses."""

    def fn(t):
        if t[0] == "bin" and t[1] in E.POW_OPS and t[3][0] == "bin" and t[3][1] in E.POW_OPS:
            return ("bin", t[1], t[2], ("par", t[3]), t[4])
        return t

    return _map_tree(tree, fn)


def _neutral_leading(tree, mode):
    """Sign runs at the start of a formula part written as their parity-collapsed single sign
    (mode 'runs'), `<signs>0` written as `<sign>1` (mode 'zero')."""

    def lead(e):
        if e[0] == "un":
            if e[2] == E.ZERO:
                return ("un", E.parity(e[1] + "-"), E.ONE) if mode == "zero" else e
            return ("un", E.parity(e[1]), e[2]) if mode == "runs" else e
        if e[0] == "bin" and e[1] in E.ADD_OPS:
            return ("bin", e[1], e[2], lead(e[3]), e[4])
        return e

    return ("formula", None if tree[1] is None else tuple(lead(p) for p in tree[1]), tuple(lead(p) for p in tree[2]), tree[3])


NEUTRALIZERS = (
    ("pow-chain-associativity", {"pow-chain"}, _neutral_pow),
    ("sign-run-after-structural-operator", {"run2-after-structural"}, lambda t: _neutral_leading(t, "runs")),
    ("sign-then-0-after-structural-operator", {"sign-zero-after-structural"}, lambda t: _neutral_leading(t, "zero")),
)


def attribute(tree, tags, intercept, out, passes, avail=None):
    """Name the root cause of a failing witness by *confirmation*: the class of a known
    construct is only used when rewriting that construct (and nothing else) into an equivalent
    spelling makes the same check pass; otherwise 'other'. Labels only."""
    if "dot" in tags and not intercept and out[0] == "error" and out[1] == "KeyError":
        return "dot-with-no-intercept-parser"
    if "dot" in tags and tree[1] is not None and avail:
        used = {v for p in tree[1] for a in E.atoms_of(p) for v in E.atom_vars(a)}
        avail2 = tuple(v for v in avail if v not in used)
        if avail2 != tuple(avail) and passes(tree, avail2):
            return "dot-does-not-exclude-lhs-variables"
    applicable = [(n, f) for n, ts, f in NEUTRALIZERS if ts & set(tags)]
    for n, f in applicable:
        t2 = f(tree)
        if t2 != tree and passes(t2):
            return n
    if len(applicable) > 1:
        t3 = tree
        for n, f in applicable:
            t3 = f(t3)
        if t3 != tree and passes(t3):
            return "combined:" + "+".join(n for n, _ in applicable)
    return "other"


# --------------------------------------------------------------------------------------
# accumulation inside a worker
# --------------------------------------------------------------------------------------
class Acc:
    def __init__(self):
        self.n = 0
        self.keys = set()
        self.samples = []
        self.failures = []
        self.counts = {}

    def case(self, key, nontrivial=True, sample=None):
        self.n += 1
        if nontrivial:
            self.keys.add(_digest(key))
        if sample is not None and len(self.samples) < 3:
            self.samples.append(sample)

    def fail(self, clause, cls, witness, detail):
        k = (clause, cls)
        self.counts[k] = self.counts.get(k, 0) + 1
        if self.counts[k] <= MAX_WITNESS_PER_CLASS:
            w = dict(witness)
            w["cls"] = cls
            self.failures.append((clause, w, detail))

    def result(self):
        return (self.n, self.keys, self.samples, self.failures, self.counts)


def repro_parse(psrc, s, avail, expected_plain, allow_reject, via="get_terms"):
    ctx = "None" if avail is None else repr({AVAIL_KEY: list(avail)})
    if via == "get_terms":
        call = f"lambda: parser.get_terms(s, context={ctx})"
    else:
        call = f"lambda: Formula(s, _parser=parser, _context={ctx})"
    return (
        REPRO_HEAD
        + f"\nparser = {psrc}\ns = {s!r}\n"
        + f"EXPECTED = {expected_plain!r}   # acceptable denotations per the documented algebra\n"
        + f"ALLOW_REJECT = {allow_reject!r}\n"
        + f"out = _outcome({call})\n"
        + "ok = (out[0] == 'returned' and (out[1] in EXPECTED or _sorted(out[1]) in EXPECTED)) or (out[0] == 'raised' and out[2] and (ALLOW_REJECT or not EXPECTED))\n"
        + "assert ok, (s, out, EXPECTED)\n"
    )


def _sorted_or_none(st, literals_count):
    try:
        return E.sort_struct(st, literals_count)
    except TypeError:  # nested structure in the result
        return None


def judge(acc, tree, s, tokens, intercept, flags, avail, ex, do_formula, clause_prefix="C01.sem", tags=None):
    """Evaluate the top-level postcondition for one string under one configuration."""
    parser = get_parser(intercept, flags)
    psrc = parser_src(intercept, flags)
    ctx = None if avail is None else {AVAIL_KEY: list(avail)}
    key = (s, intercept, flags, avail)
    if ex.unspecified:
        acc.case(key, nontrivial=False)
        return
    acc.case(key, True, sample={"formula": s, "include_intercept": intercept, "expected": E.plain(ex.pre[0]) if ex.pre else "reject"})
    if tags is None:
        tags = tree_tags(tree, tokens)
    wbase = {"formula": s, "include_intercept": intercept, "feature_flags": list(flags), "available": None if avail is None else list(avail)}

    def report(out, expected, via):
        exp_plain = [E.plain(x) for x in expected]
        if via == "get_terms":
            exp_plain += [x for x in (E.plain(y) for y in ex.post) if x not in exp_plain]
        if out[0] == "ok":
            if not expected:
                clause, kind = "C01.outside.accepted", "accepted"
            else:
                kind = diff_kind(out[1], expected)
                clause = f"{clause_prefix}.{kind}"
            got = plain_actual(out[1])
        elif out[0] == "reject":
            clause, kind, got = f"{clause_prefix}.rejected", "rejected", out[1]
        else:
            clause, kind, got = f"{clause_prefix}.internal-error", f"error:{out[1]}", f"{out[1]}: {out[2]}"
        def passes(t2, avail2=None):
            if t2[0] != "formula":
                return False
            s2 = E.show(t2)
            ex2 = expectation(t2, intercept, avail)
            if ex2.unspecified:
                return False
            ctx2 = ctx if avail2 is None else {AVAIL_KEY: list(avail2)}
            if via == "get_terms":
                o2 = observe(lambda: parser.get_terms(s2, context=ctx2))
                return (o2[0] == "ok" and (o2[1] in ex2.pre or any(_sorted_or_none(o2[1], lc) in ex2.post for lc in (False, True)))) or (o2[0] == "reject" and (ex2.allow_reject or ex2.must_reject))
            from formulaic import Formula

            o2 = observe(lambda: Formula(s2, _parser=parser, _context=ctx2))
            return (o2[0] == "ok" and o2[1] in ex2.post) or (o2[0] == "reject" and (ex2.allow_reject or ex2.must_reject))

        cls = attribute(tree, tags, intercept, out, passes, avail) + "/" + kind
        w = dict(wbase, via=via, observed=got, expected_any_of=exp_plain[:4], code=repro_parse(psrc, s, avail, exp_plain, ex.allow_reject, via))
        acc.fail(clause, cls, w, f"{via}({s!r}) with {psrc}: observed {got!r}; documented algebra gives {exp_plain[:2]!r} ({ex.why})")

    out = observe(lambda: parser.get_terms(s, context=ctx))
    good = (out[0] == "ok" and out[1] in ex.pre) or (out[0] == "reject" and (ex.allow_reject or ex.must_reject))
    if not good and out[0] == "ok":
        # get_terms returns ordered sets before the degree sort; only the order that survives the
        # (stable) degree sort is part of the documented result
        good = any(_sorted_or_none(out[1], lc) in ex.post for lc in (False, True))
    if not good:
        report(out, ex.pre, "get_terms")
        return
    if do_formula:
        from formulaic import Formula

        out2 = observe(lambda: Formula(s, _parser=parser, _context=ctx))
        good2 = (out2[0] == "ok" and out2[1] in ex.post) or (out2[0] == "reject" and (ex.allow_reject or ex.must_reject))
        if not good2:
            report(out2, ex.post, "Formula")


ORACLE_REPRO = '''# re-runs the driver's own judging step on this case; it raised {exc} in the run that produced this witness
from vf.bounded import {module} as driver
acc = driver.Acc()
driver.{function}(acc, *{args!r})
assert not acc.failures, acc.failures[:1]
'''


def guard_case(acc, clause, module, function, args, case):
    """Run one case's judging step; an exception while judging (e.g. the changed library returned
    something the oracle cannot digest) is a violation of that case's clause, and the run goes on."""
    try:
        globals_fn = __import__(f"vf.bounded.{module}", fromlist=[function])
        getattr(globals_fn, function)(acc, *args)
    except Exception as e:
        w = dict(case)
        w["exception"] = f"{type(e).__name__}: {e}"[:300]
        w["code"] = ORACLE_REPRO.format(module=module, function=function, args=tuple(args), exc=type(e).__name__)
        acc.fail(clause, f"oracle-not-applicable:{type(e).__name__}", w, f"judging {case} raised {type(e).__name__}: {e}"[:500])


def check_tree(acc, tree, opts):
    guard_case(acc, "C01.sem.oracle", "c01", "_check_tree", (tree, opts), {"formula": _safe_show(tree)})


def _safe_show(tree):
    try:
        return E.show(tree)
    except Exception:
        return repr(tree)[:200]


def _check_tree(acc, tree, opts):
    tokens = E.to_tokens(tree)
    s = E.render(tokens)
    avails = (AVAILS if opts.get("all_avails", True) else (None, AVAILS[-1])) if E.has_dot(tree) else (None,)
    tags = tree_tags(tree, tokens)
    for intercept in (True, False):
        for avail in avails:
            ex = expectation(tree, intercept, avail)
            judge(acc, tree, s, tokens, intercept, ("MULTIPART", "TWOSIDED"), avail, ex, opts.get("formula", True) and (intercept or opts.get("formula_both", False)), tags=tags)
            if opts.get("spaced") and not ex.unspecified:
                s2 = E.render(tokens, "spaced")
                judge(acc, tree, s2, tokens, intercept, ("MULTIPART", "TWOSIDED"), avail, ex, False, tags=tags)


# --------------------------------------------------------------------------------------
# workers
# --------------------------------------------------------------------------------------
def _base_trees(nmax, exps, unary_tilde=True):
    for n in range(nmax + 1):
        yield from E.gen_formulas(n, exps=exps, unary_tilde=unary_tilde)


def _key_labellings(k):
    """all-distinct (cyclic over a..d), all-equal, alternating, pairwise-equal"""
    labs = [tuple(j % 4 for j in range(k)), (0,) * k, tuple(j % 2 for j in range(k)), tuple((j // 2) % 4 for j in range(k))]
    return list(dict.fromkeys(labs))


def w_base(args):
    n, exps, unary_tilde, shard, nshards, opts = args
    acc = Acc()
    for i, sk in enumerate(E.gen_formula_skeletons(n, exps=exps, unary_tilde=unary_tilde)):
        if i % nshards != shard:
            continue
        k = E.count_slots(sk)
        for lab in (E.rgs(k, 4) if opts.get("all_labellings", True) else _key_labellings(k)):
            tree = E.fill_slots(sk, [E.name(E.LETTERS[j]) for j in lab])
            check_tree(acc, tree, opts)
    return ("grammar-trees", acc.result())


KEY_LABELLINGS = {1: [(0,)], 2: [(0, 1), (0, 0)], 3: [(0, 1, 2), (0, 0, 0), (0, 1, 0)]}


def _labelled(n, all_labellings, unary_tilde=True):
    """Base trees with exactly n nodes; either every labelling up to renaming or (quick tier,
    n = 2) the all-distinct, all-equal and first=last labellings."""
    if all_labellings:
        yield from E.gen_formulas(n, exps=(2,), unary_tilde=unary_tilde)
        return
    for sk in E.gen_formula_skeletons(n, exps=(2,), unary_tilde=unary_tilde):
        k = E.count_slots(sk)
        for lab in KEY_LABELLINGS.get(k, [tuple(range(k))]):
            yield E.fill_slots(sk, [E.name(E.LETTERS[j]) for j in lab])


def decorations(tree, runs, allruns):
    yield from E.deco_unary(tree, runs)
    yield from E.deco_addrun(tree, allruns)
    yield from E.deco_par(tree)
    yield from E.deco_atoms(tree)


def w_deco(args):
    nmax, runlen, shard, nshards, opts_small, opts_big, all_labellings = args
    acc = Acc()
    runs = E.runs_upto(runlen)
    allruns = E.runs_upto(3)
    i = 0
    for n in range(nmax + 1):
        for tree in _labelled(n, all_labellings or n <= 1, unary_tilde=(n <= 1)):
            rr = allruns if n <= 1 else runs
            for d in decorations(tree, rr, allruns):
                i += 1
                if i % nshards != shard:
                    continue
                check_tree(acc, d, opts_small if n <= 1 else opts_big)
    return ("decorated-trees", acc.result())


def w_combo(args):
    nmax, runlen, labels, shard, nshards, opts = args
    acc = Acc()
    runs = E.runs_upto(runlen)
    seen = set()
    i = 0
    for n in range(nmax + 1):
        for tree in E.gen_formulas(n, exps=(1, 2, 3), maxlabels=labels):
            for d1 in decorations(tree, runs, runs):
                for d2 in decorations(d1, runs, runs):
                    s = E.show(d2)
                    if zlib.crc32(s.encode()) % nshards != shard or s in seen:
                        continue
                    seen.add(s)
                    check_tree(acc, d2, opts)
    return ("decorated-pairs", acc.result())


def w_powers(args):
    """`**`/`^` with exponents 1..3 over operands of 1..4 terms, and chains of powers."""
    (opts,) = args
    acc = Acc()
    operands = []
    for k in range(1, 5):
        t = E.name("a")
        for j in range(1, k):
            t = ("bin", "+", "+", t, E.name(E.LETTERS[j]))
        operands.append(t)
    operands.append(("bin", "+", "+", E.name("a"), ("bin", ":", ":", E.name("b"), E.name("c"))))
    operands.append(("bin", "*", "*", E.name("a"), E.name("b")))
    operands.append(("bin", "-", "-", ("bin", "+", "+", E.name("a"), E.name("b")), E.name("a")))
    for base in operands:
        for op in E.POW_OPS:
            for e in (1, 2, 3):
                t = ("bin", op, op, base, ("atom", "lit", str(e)))
                for wrap in (lambda x: x, lambda x: ("bin", ":", ":", x, E.name("z")), lambda x: ("bin", "+", "+", E.name("b"), x)):
                    check_tree(acc, ("formula", None, (wrap(t),), False), opts)
                    check_tree(acc, ("formula", (E.name("y"),), (wrap(t),), False), opts)
                for op2 in E.POW_OPS:
                    for e2 in (1, 2):
                        t2 = ("bin", op2, op2, t, ("atom", "lit", str(e2)))
                        check_tree(acc, ("formula", None, (t2,), False), opts)
                # exponents the grammar excludes
            for bad in (E.ZERO, ("atom", "lit", "2.5"), E.name("b"), ("par", ("atom", "lit", "2"))):
                t = ("bin", op, op, base, bad)
                check_tree(acc, ("formula", None, (t,), False), opts)
    return ("powers", acc.result())


def w_colon_names(args):
    """Quoted names whose text looks like an interaction (`a:b`, `b:a`, `a:b:c`, `a:`) next to the
    interactions of the same letters: every operator, both operand orders, nested once."""
    (opts,) = args
    acc = Acc()
    a, b, c = E.name("a"), E.name("b"), E.name("c")
    inter = [_b(":", a, b), _b(":", b, a), _b(":", _b(":", a, b), c), _b("*", a, b), _b("/", a, b), a]
    quoted = [("atom", "qname", q) for q in ("`a:b`", "`b:a`", "`a:b:c`", "`a:`", "`:`", "`a`")]
    for x in inter:
        for q in quoted:
            for op in ("+", "-", ":", "*", "/", "%in%"):
                for l, r in ((x, q), (q, x)):
                    t = _b(op, l if l[0] == "atom" or op in E.ADD_OPS else ("par", l), r if r[0] == "atom" else ("par", r))
                    check_tree(acc, ("formula", None, (t,), False), opts)
                    check_tree(acc, ("formula", (q,), (t,), False), opts)
                    check_tree(acc, ("formula", None, (_b(":", ("par", t), c),), False), opts)
    # quoted names whose content looks like a literal or an operator: a quoted name is ALWAYS a variable
    # (`1` and `.` are left out: their confusion with the intercept / the wildcard is the known C15 finding)
    y = E.name("y")
    for text in ("`0`", "`00`", "`-1`", "`+0`", "`+`", "`-`", "`~`", "`|`", "`:`", "`*`", "`**`", "`2.5`", "`a+b`", "`(a)`", "`%in%`"):
        q = ("atom", "qname", text)
        trees = [q, ("un", "+", q), ("un", "-", q), ("par", q)]
        for op in ("+", "-", ":", "*", "/", "%in%"):
            trees += [_b(op, a, q), _b(op, q, a)]
        trees += [_b("+", _b("+", a, q), b), _b("-", _b("+", q, a), q), ("bin", "**", "**", ("par", _b("+", a, q)), ("atom", "lit", "2"))]
        for t in trees:
            check_tree(acc, ("formula", None, (t,), False), opts)
            check_tree(acc, ("formula", (y,), (t,), False), opts)
            check_tree(acc, ("formula", (q,), (_b("+", t, b),), False), opts)
            check_tree(acc, ("formula", (y,), (a, t), False), opts)
    return ("colon-names", acc.result())


def w_random(args):
    seed, count, minops, maxops, opts = args
    rng = random.Random(seed)
    acc = Acc()
    for _ in range(count):
        tree = E.random_formula(rng, rng.randint(minops, maxops))
        check_tree(acc, tree, opts)
    return ("random-trees", acc.result())


def _split_parts(tokens):
    """Top-level structure of a token list printed from a formula tree (structural operators
    only occur at top level there)."""
    lhs, cur, parts, tilde = None, [], [], False
    for tok in tokens:
        if tok == "~":
            parts.append(cur)
            if any(parts) or len(parts) > 1:
                lhs = parts
            else:
                tilde = True
            parts, cur = [], []
        elif tok == "|":
            parts.append(cur)
            cur = []
        else:
            cur.append(tok)
    parts.append(cur)
    return lhs, parts, tilde


def w_negative(args):
    """A sign run of length 1..k written directly after a non-additive binary operator."""
    nmax, runlen, shard, nshards = args
    acc = Acc()
    i = 0
    for tree in _base_trees(nmax, (2,), unary_tilde=False):
        nb = E.n_binary(tree)
        runs = E.runs_upto(3 if nb <= 1 else runlen)
        for path in E.expr_paths(tree):
            node = E.get_at(tree, path)
            if node[0] != "bin" or node[1] in E.ADD_OPS:
                continue
            for run in runs:
                i += 1
                if i % nshards != shard:
                    continue
                bare = E.replace_at(tree, path, ("bin", node[1], node[2], node[3], ("unbare", run, node[4])))
                tight = E.replace_at(tree, path, ("bin", node[1], node[2], node[3], ("un", run, node[4])))
                tokens = E.to_tokens(bare)
                s = E.render(tokens)
                # loose reading: the prefix sign has its documented (additive) precedence
                extra = []
                try:
                    lhs_t, rhs_t, tilde = _split_parts(tokens)
                    loose = (
                        "formula",
                        None if lhs_t is None else tuple(E.read_loose(p) for p in lhs_t),
                        tuple(E.read_loose(p) for p in rhs_t),
                        tilde,
                    )
                    extra.append(loose)
                except E.OutsideGrammar:
                    pass
                for intercept in (True, False):
                    ex = expectation(tight, intercept, None, extra)
                    if ex.unspecified:
                        acc.case((s, intercept), False)
                        continue
                    ex.allow_reject = True
                    acc.case((s, intercept), True, sample={"formula": s, "readings": [E.show(tight)] + [E.show(x) for x in extra]})
                    parser = get_parser(intercept)
                    out = observe(lambda: parser.get_terms(s))
                    if out[0] == "reject":
                        continue
                    if out[0] == "ok" and out[1] in ex.pre:
                        continue
                    exp_plain = [E.plain(x) for x in ex.pre]
                    got = plain_actual(out[1]) if out[0] == "ok" else f"{out[1]}: {out[2]}"
                    clause = "C01.signrun.misread" if out[0] == "ok" else "C01.signrun.internal-error"
                    cls = f"sign-run-after-{node[1]}" + ("" if out[0] == "ok" else f"/error:{out[1]}")
                    w = {
                        "formula": s,
                        "include_intercept": intercept,
                        "run": run,
                        "after_operator": node[1],
                        "observed": got,
                        "expected_any_of": exp_plain[:4],
                        "code": repro_parse(parser_src(intercept), s, None, exp_plain, True),
                    }
                    acc.fail(clause, cls, w, f"{s!r}: sign run {run!r} after {node[1]!r} must be rejected or read as the parity-collapsed sign on the following operand {exp_plain[:2]!r}; observed {got!r}")
    return ("sign-run-negative-space", acc.result())


def w_unbalanced(args):
    """Outside the grammar: one bracket / quote character of a well-formed formula removed."""
    (nmax,) = args
    acc = Acc()
    seen = set()
    for n in range(nmax + 1):
        for base in E.gen_formulas(n, exps=(2,), maxlabels=2, unary_tilde=False):
            variants = [base] + list(E.deco_par(base)) + list(E.deco_atoms(base, with_dot=False, with_zero_one=False))
            for tree in variants:
                tokens = E.to_tokens(tree)
                for i, tok in enumerate(tokens):
                    cuts = []
                    if tok in ("(", ")"):
                        cuts.append("")
                    elif tok[0] in "`{" or (tok.endswith(")") and "(" in tok):
                        cuts += [tok[:-1], tok[1:] if tok[0] in "`{" else tok.replace("(", "", 1)]
                    for cut in cuts:
                        s = "".join(tokens[:i] + [cut] + tokens[i + 1 :])
                        if s in seen:
                            continue
                        seen.add(s)
                        for intercept in (True, False):
                            parser = get_parser(intercept)
                            out = observe(lambda: parser.get_terms(s))
                            acc.case((s, intercept), out[0] != "error", sample={"formula": s, "expected": "reject"})
                            if out[0] == "ok":
                                w = {"formula": s, "well_formed": "".join(tokens), "include_intercept": intercept, "observed": plain_actual(out[1]), "code": repro_parse(parser_src(intercept), s, None, [], True)}
                                acc.fail("C01.outside.accepted", "unbalanced-quote-or-bracket", w, f"{s!r} (from {''.join(tokens)!r} by removing one bracket/quote character) was accepted as {plain_actual(out[1])!r}")
    return ("unbalanced", acc.result())


ALL_FLAGS = ("TWOSIDED", "MULTIPART", "MULTISTAGE")


def w_flags(args):
    nmax, shard, nshards, all_labellings = args
    acc = Acc()
    subsets = [tuple(sorted(c)) for r in range(4) for c in itertools.combinations(ALL_FLAGS, r)]
    i = 0
    for tree in itertools.chain.from_iterable(_labelled(n, all_labellings or n <= 1) for n in range(nmax + 1)):
        i += 1
        if i % nshards != shard:
            continue
        tokens = E.to_tokens(tree)
        s = E.render(tokens)
        uses_tilde = tree[1] is not None
        uses_bar = len(tree[2]) > 1 or (tree[1] is not None and len(tree[1]) > 1)
        for flags in subsets:
            for intercept in (True, False):
                disabled = (uses_tilde and "TWOSIDED" not in flags) or (uses_bar and "MULTIPART" not in flags)
                if disabled:
                    acc.case((s, intercept, flags), True, sample={"formula": s, "feature_flags": list(flags), "expected": "reject"})
                    parser = get_parser(intercept, flags)
                    out = observe(lambda: parser.get_terms(s))
                    if out[0] != "reject":
                        got = plain_actual(out[1]) if out[0] == "ok" else f"{out[1]}: {out[2]}"
                        clause = "C01.flags.disabled-accepted" if out[0] == "ok" else "C01.flags.internal-error"
                        w = {
                            "formula": s,
                            "include_intercept": intercept,
                            "feature_flags": list(flags),
                            "observed": got,
                            "code": repro_parse(parser_src(intercept, flags), s, None, [], True),
                        }
                        acc.fail(clause, "disabled-operator/" + out[0], w, f"{s!r} uses an operator disabled by flags {flags}; observed {got!r}")
                    continue
                ex = expectation(tree, intercept)
                if tree[3] and "TWOSIDED" not in flags:
                    ex.allow_reject = True  # one-sided `~ x` with TWOSIDED off: not documented either way
                judge(acc, tree, s, tokens, intercept, flags, None, ex, False, clause_prefix="C01.flags")
    return ("feature-flags", acc.result())


# ---- identities (no reference semantics involved: two spellings, one formula) -----------
def _operand_pool(nmax, labels, seed=0):
    pool = []
    for n in range(min(nmax, 1) + 1):
        for sk in E.gen_expr(n, exps=(2,)):
            k = E.count_slots(sk)
            for lab in E.rgs(k, labels):
                pool.append(E.fill_slots(sk, [E.name(E.LETTERS[j]) for j in lab]))
    if nmax >= 2:
        rng = random.Random(seed)
        two = [E.fill_slots(sk, [E.name(E.LETTERS[j]) for j in lab]) for sk in E.gen_expr(2, exps=(2,)) for lab in E.rgs(E.count_slots(sk), labels)]
        pool.extend(rng.sample(two, 40))
    pool.append(("un", "-", E.name("a")))
    pool.append(("par", ("bin", "-", "-", E.name("a"), E.name("a"))))
    pool.append(SPECIAL_QN)
    pool.append(E.SPECIAL_ATOMS["call"])
    return pool


SPECIAL_QN = E.SPECIAL_ATOMS["qname"]

IDENTITY_REPRO = '''from formulaic import Formula
from formulaic.parser import DefaultFormulaParser
parser = {psrc}
lhs, rhs = {a!r}, {b!r}
def f(s):
    try:
        return Formula(s, _parser=parser)
    except Exception as e:
        return ("raised", type(e).__name__)
fa, fb = f(lhs), f(rhs)
assert not isinstance(fa, tuple) and not isinstance(fb, tuple) and fa == fb, (lhs, fa, rhs, fb)
'''


def _b(op, l, r):
    return ("bin", op, op, l, r)


def w_identities(args):
    nmax, labels, shard, nshards, ctx_every, seed = args
    from formulaic import Formula

    acc = Acc()
    pool = _operand_pool(nmax, labels, seed)
    wrappers = [
        ("plain", lambda e: ("formula", None, (e,), False)),
        ("two-sided", lambda e: ("formula", (E.name("y"),), (e,), False)),
        ("multi-part", lambda e: ("formula", (E.name("y"),), (e, E.name("z")), False)),
        ("inside", lambda e: ("formula", None, (_b(":", ("par", e), E.name("w")),), False)),
    ]
    i = 0
    for A in pool:
        for B in pool:
            i += 1
            if i % nshards != shard:
                continue
            pairs = [
                ("a*b=a+b+a:b", _b("*", A, B), _b("+", _b("+", A, B), _b(":", A, B))),
                ("b%in%a=a/b", _b("%in%", B, A), _b("/", A, B)),
            ]
            if A[0] == "atom":
                pairs.append(("a/b=a+a:b", _b("/", A, B), _b("+", A, _b(":", A, B))))
            for e in (1, 2, 3):
                lit = ("atom", "lit", str(e))
                pairs.append(("^=**", ("bin", "^", "^", _b("+", A, B), lit), ("bin", "**", "**", _b("+", A, B), lit)))
            for ident, L, R in pairs:
                for wname, wrap in wrappers:
                    if wname != "plain" and (i // nshards) % ctx_every != 0:
                        continue  # the embedding contexts are applied to every ctx_every-th operand pair
                    for intercept in (True, False):
                        sl, sr = E.show(wrap(L)), E.show(wrap(R))
                        parser = get_parser(intercept)
                        ol = observe(lambda: Formula(sl, _parser=parser))
                        orr = observe(lambda: Formula(sr, _parser=parser))
                        both_fail = ol[0] != "ok" and orr[0] != "ok"
                        acc.case((ident, sl, sr, intercept), not both_fail, sample={"identity": ident, "lhs": sl, "rhs": sr})
                        if both_fail:
                            continue  # e.g. nesting under an empty parent set: judged by C14
                        equal = ol[0] == "ok" and orr[0] == "ok" and ol[1] == orr[1]
                        if equal:
                            # the library's own equality must agree
                            try:
                                fa, fb = Formula(sl, _parser=parser), Formula(sr, _parser=parser)
                                equal = bool(fa == fb)
                            except Exception:  # outcome of the code under test
                                equal = False
                        if not equal:
                            w = {
                                "identity": ident,
                                "lhs": sl,
                                "rhs": sr,
                                "include_intercept": intercept,
                                "observed": [plain_actual(o[1]) if o[0] == "ok" else list(o) for o in (ol, orr)],
                                "code": IDENTITY_REPRO.format(psrc=parser_src(intercept), a=sl, b=sr),
                            }
                            kind = "differ" if ol[0] == "ok" and orr[0] == "ok" else "one-side-raises:" + (ol if ol[0] != "ok" else orr)[1]
                            acc.fail(f"C01.identity.{ident}", f"{wname}/{kind}", w, f"documented identity {ident}: Formula({sl!r}) != Formula({sr!r})")
    return ("identities", acc.result())


def _lib_equal(fn):
    """The library's own `==` as an outcome (an exception is 'not equal')."""
    try:
        return bool(fn())
    except Exception:
        return False


def w_power_identity(args):
    """(a+b+c)**2 = all interactions up to order 2 (exactly as documented for 3 names, degree 2;
    as sets, degree-sorted, for 1..4 names and degree 1..3)."""
    from formulaic import Formula

    acc = Acc()
    names = ["a", "b", "c", "d"]
    for k in range(1, 5):
        for n in (1, 2, 3):
            for op in E.POW_OPS:
                for intercept in (True, False):
                    parser = get_parser(intercept)
                    sl = f"({'+'.join(names[:k])}){op}{n}"
                    combos = [":".join(c) for r in range(1, n + 1) for c in itertools.combinations(names[:k], r)]
                    sr = " + ".join(combos)
                    acc.case((sl, intercept), True, sample={"identity": "power", "lhs": sl, "rhs": sr})
                    ol = observe(lambda: Formula(sl, _parser=parser))
                    orr = observe(lambda: Formula(sr, _parser=parser))
                    if k == 3 and n == 2:
                        ok = ol[0] == "ok" and orr[0] == "ok" and ol[1] == orr[1] and _lib_equal(lambda: Formula(sl, _parser=parser) == Formula(sr, _parser=parser))
                    else:
                        ok = ol[0] == "ok" and orr[0] == "ok" and E.as_sets(ol[1]) == E.as_sets(orr[1])
                        if ok:
                            degs = [E.degree(t) for t in ol[1]["root"]] if isinstance(ol[1].get("root"), list) else None
                            ok = degs is not None and degs == sorted(degs)
                    if not ok:
                        code = IDENTITY_REPRO.format(psrc=parser_src(intercept), a=sl, b=sr)
                        if not (k == 3 and n == 2):
                            code = code.replace("fa == fb", "set(fa) == set(fb)")
                        w = {"identity": "power", "lhs": sl, "rhs": sr, "include_intercept": intercept, "observed": [list(ol)[:2], list(orr)[:2]], "code": code}
                        acc.fail("C01.identity.power-expansion", f"k={k},n={n}", w, f"{sl!r} is documented to be all interactions up to order {n}: {sr!r}")
    return ("identities", acc.result())


# ---- equivalent specification forms ----------------------------------------------------
SPEC_REPRO = '''from formulaic import Formula
from formulaic.parser import DefaultFormulaParser
parser = {psrc}
string_form = Formula({s!r}, _parser=parser)
other_form = Formula{other}
assert string_form == other_form, (string_form, other_form)
'''


def term_text(term):
    out = []
    for k in sorted(term):
        if k[0] == "name":
            out.append(k[1] if k[1].isidentifier() else f"`{k[1]}`")
        elif k[0] == "lit":
            out.append(k[1])
        else:
            txt = E.key_text(k)
            out.append(txt if "(" in txt and txt.split("(", 1)[0].isidentifier() and txt.endswith(")") and "+" not in txt.split("(", 1)[0] else "{" + txt + "}")
    return ":".join(out)


def w_specforms(args):
    nmax, shard, nshards = args
    from formulaic import Formula

    acc = Acc()
    i = 0
    trees = []
    for tree in _base_trees(nmax, (2,), unary_tilde=False):
        trees.append(tree)
        if E.n_binary(tree) <= 1:
            trees.extend(E.deco_atoms(tree, with_dot=False, with_zero_one=False))
    for tree in trees:
        i += 1
        if i % nshards != shard:
            continue
        s = E.show(tree)
        for intercept in (True, False):
            parser = get_parser(intercept)
            psrc = parser_src(intercept)
            try:
                st = E.sort_struct(E.sem_formula(tree, intercept))
            except (E.Unspecified, E.OutsideGrammar):
                continue
            if E.literal_flags(st) & {"literal-only-term", "rescaled-duplicate", "two-literals", "one-in-product"}:
                continue
            base = observe(lambda: Formula(s, _parser=parser))
            if base[0] != "ok":
                acc.case(("spec", s, intercept), False)
                continue  # judged by the grammar-tree driver

            def lists(p):
                return tuple(lists(x) for x in p) if isinstance(p, tuple) else [term_text(t) for t in p]

            forms = []
            if set(st) == {"root"}:
                forms.append(("list-of-terms", (lists(st["root"]),), {}))
                if not isinstance(st["root"], tuple):
                    # explicit string for the nested (no-intercept) parser
                    forms.append(("list-reversed", (list(reversed(lists(st["root"]))),), {}))
            else:
                forms.append(("lhs-rhs-keywords", (), {"lhs": lists(st["lhs"]), "rhs": lists(st["rhs"])}))
                forms.append(("dict", ({"lhs": lists(st["lhs"]), "rhs": lists(st["rhs"])},), {}))
                if not isinstance(st["lhs"], tuple) and not isinstance(st["rhs"], tuple) and st["lhs"] and st["rhs"]:
                    forms.append(("lhs-rhs-strings", (), {"lhs": " + ".join(lists(st["lhs"])), "rhs": " + ".join(lists(st["rhs"]))}))
            for fname, a, kw in forms:
                if fname == "list-reversed":
                    # same terms in another order: equal only if the degree order fixes the list
                    degs = [E.degree(t) for t in st["root"]]
                    if len(set(degs)) != len(degs):
                        continue
                acc.case((fname, s, intercept), True, sample={"form": fname, "string": s, "args": list(a), "kwargs": kw})
                argsrc = "(" + ", ".join([repr(x) for x in a] + [f"{k}={v!r}" for k, v in kw.items()]) + ")"
                out = observe(lambda: Formula(*a, **kw))
                ok = out[0] == "ok" and out[1] == base[1]
                if ok:
                    ok = _lib_equal(lambda: Formula(s, _parser=parser) == Formula(*a, **kw))
                if not ok:
                    got = plain_actual(out[1]) if out[0] == "ok" else list(out)
                    w = {"form": fname, "string": s, "include_intercept": intercept, "spec": argsrc, "observed": got, "string_form": plain_actual(base[1]), "code": SPEC_REPRO.format(psrc=psrc, s=s, other=argsrc)}
                    acc.fail(f"C01.specforms.{fname}", "differs" if out[0] == "ok" else f"raises:{out[1]}", w, f"Formula({s!r}) != Formula{argsrc}")
    # list respelling of a plain sum, repeated summands included (set semantics)
    nparser = get_parser(False)
    for k in range(1, 5) if shard == 0 else ():
        for lab in E.rgs(k, 3):
            summands = [E.LETTERS[j] for j in lab]
            for variant in ("plain", "interaction-respelled"):
                if variant == "interaction-respelled":
                    if k < 2:
                        continue
                    summands2 = ["a:b" if j % 2 == 0 else "b:a" for j in lab]
                else:
                    summands2 = summands
                s = " + ".join(summands2)
                acc.case(("sum-list", s), True, sample={"form": "list-of-summands", "string": s})
                base = observe(lambda: Formula(s, _parser=nparser))
                out = observe(lambda: Formula(list(summands2)))
                ok = base[0] == "ok" and out[0] == "ok" and base[1] == out[1] and _lib_equal(lambda: Formula(s, _parser=nparser) == Formula(list(summands2)))
                if not ok:
                    dup = len(set(summands2)) < len(summands2) or (variant != "plain" and len(summands2) > 1)
                    argsrc = f"({list(summands2)!r})"
                    w = {"form": "list-of-summands", "string": s, "spec": argsrc, "observed": plain_actual(out[1]) if out[0] == "ok" else list(out), "string_form": plain_actual(base[1]) if base[0] == "ok" else list(base), "code": SPEC_REPRO.format(psrc=parser_src(False), s=s, other=argsrc)}
                    acc.fail("C01.specforms.list-of-summands", "list-duplicate-kept" if dup else "differs", w, f"Formula({s!r}) (no-intercept parser) != Formula({list(summands2)!r})")
    return ("spec-forms", acc.result())


# --------------------------------------------------------------------------------------
# driver
# --------------------------------------------------------------------------------------
DRIVERS = {
    "grammar-trees": dict(
        rule="every formula tree with <= N binary operator nodes over + - * / : %in% ** ^ plus ~ (binary, unary) and | at the "
        "positions the grammar allows, leaves labelled up to renaming (restricted-growth strings over a..d), printed with minimal "
        "parentheses; x include_intercept in {T,F}; get_terms compared (ordered) with the reference semantics, Formula() with its "
        "stable degree sort. distinct = (string, configuration); non-trivial = the documentation defines the outcome",
        exhaustive=True,
    ),
    "decorated-trees": dict(
        rule="every base tree with <= 2 binary nodes x one decoration: a unary sign run (length <= 2 in the quick tier, <= 3 in the thorough tier and always for <= 1 node) at any "
        "node, an additive operator written as a sign run (length 2..3), redundant parentheses around any node, a special atom "
        "(0, 1, 2.5, quoted name, call, brace, '.') at any leaf where the grammar defines it; '.' x 4 available-variable lists",
        exhaustive=True,
    ),
    "decorated-pairs": dict(rule="every ordered pair of decorations (as in decorated-trees) on base trees with <= 1 binary node, exponents 1..3, distinct strings only", exhaustive=True),
    "colon-names": dict(rule="quoted names whose text contains ':' (`a:b`, `b:a`, `a:b:c`, `a:`, `:`) combined by every binary operator (both orders, also as lhs and nested in an interaction) with the interactions a:b, b:a, a:b:c, a*b, a/b: atomic factors, never identified with the interaction of their pieces; quoted names that look like literals or operators (`0`, `-1`, `+`, `~`, `|`, `2.5`, ...) in every operand position: always a variable", exhaustive=True),
    "powers": dict(rule="** and ^ with exponents 1..3 over 7 operand shapes, chains of two powers, excluded exponents (0, 2.5, a name)", exhaustive=True),
    "random-trees": dict(rule="seeded random trees with 4..8 binary nodes, unary runs, parentheses, special atoms", exhaustive=False),
    "sign-run-negative-space": dict(
        rule="a sign run (length <= 3) written directly after every non-additive binary operator of every base tree with <= 2 nodes: "
        "rejected with the parsing error, or equal to the reading where the parity-collapsed sign applies to the following operand "
        "(tight: next operand; loose: documented additive precedence)",
        exhaustive=True,
    ),
    "feature-flags": dict(rule="every base tree with <= 2 nodes x 8 feature-flag subsets x intercept: disabled ~ / | rejected, otherwise the reference semantics", exhaustive=True),
    "identities": dict(rule="documented identities a*b=a+b+a:b, a/b=a+a:b (a an atom), b %in% a = a/b, ^ = ** for all operand pairs from the pool of expressions with <= 1 node (+ empty-set and special operands), in 4 embedding contexts; (a+..)**n = all interactions up to order n", exhaustive=True),
    "unbalanced": dict(rule="every formula with <= 2 nodes (labels a, b; + redundant parentheses, + quoted/call/brace atoms) with one bracket or quote character removed must be rejected", exhaustive=True),
    "spec-forms": dict(rule="string vs list of term strings vs lhs=/rhs= keywords vs dict for every base tree <= 2 nodes (+ special atoms <= 1 node); list of summands incl. repeats vs the sum string", exhaustive=True),
}


def plan(ctx):
    th = ctx.thorough
    seed = ctx.seed
    tasks = []
    opts_small = {"formula": True, "formula_both": True, "spaced": True}
    opts_big = {"formula": True, "formula_both": th, "spaced": th, "all_avails": th}
    tasks.append((w_powers, (opts_small,)))
    tasks.append((w_colon_names, ({"formula": True, "formula_both": True, "spaced": False},)))
    for n in (0, 1):
        tasks.append((w_base, (n, (1, 2, 3), True, 0, 1, opts_small)))
    for sh in range(8):
        tasks.append((w_base, (2, (1, 2, 3), True, sh, 8, opts_small)))
    ns3 = 48
    for sh in range(ns3):
        tasks.append((w_base, (3, (2,), th, sh, ns3, opts_big if not th else opts_small)))
    if th:
        ns4 = 256
        for sh in range(ns4):
            tasks.append((w_base, (4, (2,), False, sh, ns4, dict(opts_big, formula_both=False, spaced=False, all_labellings=False))))
    nd = 32
    for sh in range(nd):
        tasks.append((w_deco, (2, 3 if th else 2, sh, nd, opts_small, opts_big, th)))
    if th:
        for sh in range(64):
            tasks.append((w_deco3, (2, sh, 64, dict(opts_big, formula_both=False, spaced=False))))
    nc = 32
    for sh in range(nc):
        tasks.append((w_combo, (1, 2 if th else 1, 4 if th else 1, sh, nc, opts_big)))
    nr = 32
    count = (100000 if th else 3200) // nr
    for sh in range(nr):
        tasks.append((w_random, (seed * 1000 + sh, count, 4, 8, opts_big)))
    nn = 16
    for sh in range(nn):
        tasks.append((w_negative, (2, 3 if th else 2, sh, nn)))
    for sh in range(8):
        tasks.append((w_flags, (2, sh, 8, th)))
    for sh in range(16):
        tasks.append((w_identities, (2 if th else 1, 3 if th else 2, sh, 16, 4 if th else 8, seed)))
    tasks.append((w_power_identity, ()))
    tasks.append((w_unbalanced, (2,)))
    for sh in range(8):
        tasks.append((w_specforms, (2, sh, 8)))
    return tasks


def w_deco3(args):
    """thorough only: one sign/parenthesis decoration on every base tree with exactly 3 nodes
    (all-distinct labelling, runs <= 2)."""
    runlen, shard, nshards, opts = args
    acc = Acc()
    runs = E.runs_upto(runlen)
    for i, sk in enumerate(E.gen_formula_skeletons(3, exps=(2,), unary_tilde=False)):
        if i % nshards != shard:
            continue
        k = E.count_slots(sk)
        tree = E.fill_slots(sk, [E.name(E.LETTERS[j % 4]) for j in range(k)])
        for d in itertools.chain(E.deco_unary(tree, runs), E.deco_addrun(tree, runs), E.deco_par(tree)):
            check_tree(acc, d, opts)
    return ("decorated-trees", acc.result())


WORKER_DRIVER = {
    "w_base": "grammar-trees", "w_deco": "decorated-trees", "w_deco3": "decorated-trees", "w_combo": "decorated-pairs", "w_powers": "powers",
    "w_colon_names": "colon-names", "w_random": "random-trees", "w_negative": "sign-run-negative-space", "w_flags": "feature-flags",
    "w_identities": "identities", "w_power_identity": "identities", "w_unbalanced": "unbalanced", "w_specforms": "spec-forms",
}
WORKER_REPRO = '''# re-runs the shard of the bounded driver that raised {exc} (an exception in the driver's judging code is a violation, not a crash)
from vf.bounded import {module} as driver
driver.{function}({args!r})
'''


def run_task_safely(task, module, worker_driver, clause, n_result=5):
    """Pool workers never propagate: an exception is returned as a failure record."""
    fn, args = task
    try:
        return fn(args)
    except Exception as e:
        import traceback

        w = {"cls": f"oracle-not-applicable:{type(e).__name__}", "formula": f"<shard {fn.__name__}{args!r}>"[:200], "config": "worker", "exception": traceback.format_exc()[-1500:],
             "code": WORKER_REPRO.format(module=module, function=fn.__name__, args=args, exc=type(e).__name__)}
        detail = f"worker {fn.__name__}{args!r} raised {type(e).__name__}: {e}"[:500]
        res = (0, set(), [], [(clause, w, detail)], {(clause, w["cls"]): 1})
        if n_result == 6:
            res = res + ({},)
        return (worker_driver.get(fn.__name__, next(iter(worker_driver.values()))), res)


def _run(task):
    return run_task_safely(task, "c01", WORKER_DRIVER, "C01.driver.worker")


def run_bounded(ctx):
    tasks = plan(ctx)
    th = ctx.thorough
    bounds = {
        "grammar-trees": "binary operator nodes <= 3 with every labelling up to renaming over a..d" + ("; 4 nodes with 4 key labellings (all-distinct, all-equal, alternating, pairwise-equal)" if th else "") + "; exponents 1..3 for <= 2 nodes, 2 beyond",
        "decorated-trees": "base trees <= 2 nodes" + (" (+ 3 nodes: sign-run and parenthesis decorations, all-distinct labelling, runs <= 2)" if th else " (2 nodes: all-distinct, all-equal and first=last labellings)"),
        "decorated-pairs": "base trees <= 1 node; " + ("runs <= 2, every labelling" if th else "runs of length 1, all-equal labelling"),
        "powers": "see rule",
        "colon-names": "6 interaction operands x 6 quoted names x 6 operators x 2 orders x 3 contexts",
        "random-trees": f"{100000 if th else 3200} trees, seed {ctx.seed}",
        "sign-run-negative-space": f"base trees <= 2 nodes, runs <= {3 if th else 2} (<= 3 for <= 1 node)",
        "feature-flags": "base trees <= 2 nodes" + ("" if th else " (2 nodes: three key labellings)"),
        "identities": "operand pool: expressions <= 1 node" + (" (labels a..c) + 40 seeded expressions with 2 nodes" if th else " (labels a, b)"),
        "spec-forms": "base trees <= 2 nodes",
        "unbalanced": "base trees <= 2 nodes",
    }
    order = list(DRIVERS)
    bs = {}
    for name in order:
        d = DRIVERS[name]
        bs[name] = ctx.bounded(name, rule=d["rule"], exhaustive=d["exhaustive"], bound=bounds[name])
    reported = {}
    totals = {}
    with ProcessPoolExecutor(NPROC) as pool:
        for name, (n, keys, samples, failures, counts) in pool.map(_run, tasks, chunksize=1):
            b = bs[name]
            b.add_counts(n, keys, samples)
            for k, c in counts.items():
                totals[k] = totals.get(k, 0) + c
            for clause, w, detail in failures:
                k = (clause, w["cls"])
                if reported.get(k, 0) >= 5:
                    continue
                reported[k] = reported.get(k, 0) + 1
                b.fail(clause, w, detail)
    import time as _t

    for b in bs.values():
        b.wall = _t.time() - b.t0
    if totals:
        ctx.notes.append({"C01 bounded failure counts (clause, cls) -> witnesses seen": {f"{k[0]} [{k[1]}]": v for k, v in sorted(totals.items())}})
    if not ctx.explanation:
        # only when no deductive module has described the run (vf/proofs is written separately)
        ctx.explanation = "bounded stand-in only in this run: whole-parser functional correctness against an independent reference semantics is decided by exhaustive small-scope enumeration (bounded), not proved"
    ctx.assume(
        "A-C01-sem: the reference semantics encodes grammar.md as: '1 +' textually prepended to every right-hand part (a leading sign run joins it); "
        "0 == -1 textually; a run of signs collapses by parity; ** as the n-fold product (either lexicographic or iterated a*a; both accepted); "
        "degree = number of non-literal factors (number of factors also accepted); python factors compared by AST",
        "A-C01-open: not judged (documentation silent): nesting under an empty parent set, 0/1 as operands of : * / %in% **, "
        "literal-only terms and rescaled duplicates (rejection or the algebraic reading both accepted), one-sided '~ x' with TWOSIDED off",
    )
