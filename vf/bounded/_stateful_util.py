"""Shared helpers for the bounded drivers of C04, C09, C12, C13 (stateful transforms and
spec reuse).  Nothing in here looks at the implementation under test."""
from __future__ import annotations

import concurrent.futures as cf
import hashlib
import os
import textwrap
import warnings
from collections import Counter

import numpy as np

MAX_REPORTED_PER_CLASS = 5


def khash(key):
    """Same digest as vf.core.Bounded.case uses, so that worker-side keys can be merged with
    `b.add_counts`."""
    return hashlib.blake2b(repr(key).encode(), digest_size=8).digest()


class Reporter:
    """Per-(clause, cls) limiter in front of `b.fail`: the first MAX_REPORTED_PER_CLASS witnesses
    of every class are reported, all of them are counted (ctx.notes gets the totals)."""

    def __init__(self, ctx, b):
        self.ctx, self.b = ctx, b
        self.counts = Counter()

    def fail(self, clause, cls, witness, detail=""):
        self.counts[(clause, cls)] += 1
        if self.counts[(clause, cls)] <= MAX_REPORTED_PER_CLASS:
            w = dict(witness)
            w["cls"] = cls
            self.b.fail(clause=clause, witness=w, detail=detail)

    def absorb(self, failures):
        """failures: iterable of dicts(clause, cls, witness, detail) produced by workers, in a
        deterministic order."""
        for f in failures:
            self.fail(f["clause"], f["cls"], f["witness"], f.get("detail", ""))

    def close(self):
        if self.counts:
            self.ctx.notes.append(
                f"bounded:{self.b.name}: failing evaluations per (clause, cls): "
                + "; ".join(f"{c}/{k}={n}" for (c, k), n in sorted(self.counts.items()))
            )


class WorkResult:
    """What a worker returns: counts, distinct non-trivial key digests, a few samples, failures."""

    __slots__ = ("n", "keys", "samples", "failures", "stats")

    def __init__(self):
        self.n = 0
        self.keys = set()
        self.samples = []
        self.failures = []
        self.stats = Counter()

    def case(self, key, nontrivial=True, sample=None):
        self.n += 1
        if nontrivial:
            self.keys.add(khash(key))
        if sample is not None and len(self.samples) < 2:
            self.samples.append(sample)

    def fail(self, clause, cls, witness, detail=""):
        # keep at most a handful per class per chunk; the parent limits again, counts are kept
        self.stats[("fail", clause, cls)] += 1
        if self.stats[("fail", clause, cls)] <= MAX_REPORTED_PER_CLASS:
            self.failures.append({"clause": clause, "cls": cls, "witness": witness, "detail": detail})

    def pack(self):
        return (self.n, self.keys, self.samples, self.failures, dict(self.stats))


def merge(b, rep, packed_results, stats=None):
    """Merge worker results (in submission order => deterministic) into the Bounded counter."""
    for n, keys, samples, failures, st in packed_results:
        b.add_counts(n, keys, samples)
        for f in failures:
            rep.fail(f["clause"], f["cls"], f["witness"], f.get("detail", ""))
        for k, v in st.items():
            if k[0] == "fail":
                # failures beyond the per-chunk cap are still counted
                extra = v - min(v, MAX_REPORTED_PER_CLASS)
                if extra:
                    rep.counts[(k[1], k[2])] += extra
            elif stats is not None:
                stats[k] += v


def pmap(fn, chunks, workers=16):
    """Run fn over chunks in a process pool (fork); results in submission order. Exceptions in
    driver code propagate (=> CHECKER-BROKEN), they are never turned into 'no violation'."""
    chunks = list(chunks)
    if not chunks:
        return []
    workers = max(1, min(workers, len(chunks), (os.cpu_count() or 2)))
    if workers == 1:
        return [fn(c) for c in chunks]
    with cf.ProcessPoolExecutor(workers) as ex:
        return list(ex.map(fn, chunks))


def chunked(seq, n_chunks):
    seq = list(seq)
    n_chunks = max(1, min(n_chunks, len(seq)))
    return [seq[i::n_chunks] for i in range(n_chunks)]


def fl(v):
    """Exact, eval-able literal for a list of floats (repr round-trips; nan/inf spelled out)."""
    out = []
    for a in v:
        a = float(a)
        if a != a:
            out.append("float('nan')")
        elif a in (float("inf"), float("-inf")):
            out.append("float('%s')" % a)
        else:
            out.append(repr(a))
    return "[" + ", ".join(out) + "]"


def code(s):
    return textwrap.dedent(s).strip() + "\n"


class quiet_numpy:
    """Silence numpy floating point RuntimeWarnings raised inside the code under test (divide by
    zero for degenerate inputs etc.); they are not contract outcomes."""

    def __enter__(self):
        self._e = np.errstate(all="ignore")
        self._e.__enter__()
        self._w = warnings.catch_warnings()
        self._w.__enter__()
        warnings.simplefilter("ignore", RuntimeWarning)
        return self

    def __exit__(self, *a):
        self._w.__exit__(*a)
        self._e.__exit__(*a)
        return False


# ------------------------------------------------------------------------------------------
# per-case guard for pool workers: no exception escapes because of what the library returns or raises
# ------------------------------------------------------------------------------------------
GUARD_WITNESS = """
import importlib
nan, inf = float("nan"), float("inf")
case = {case}
# re-runs the driver's own judge on this single case: it must neither raise nor report a failure
out = getattr(importlib.import_module({modname!r}), {fname!r})([case])
assert not out[3], [(f["clause"], f["cls"], f["detail"][:300]) for f in out[3]][:3]
"""


def _guarded_call(modname, fname, clause, cases):
    """Run `modname.fname([case])` for every case separately.  An exception raised while a case is run or judged (the
    oracle fed None / NaN / object cells / wrong shapes by a changed library, exact-arithmetic conversions, witness
    construction) is returned as data: a violation of `clause` with class `oracle-not-applicable:<ExceptionType>`."""
    import importlib
    import traceback

    worker = getattr(importlib.import_module(modname), fname)
    acc = WorkResult()
    for c in cases:
        try:
            n, keys, samples, failures, stats = worker([c])
        except Exception as e:  # noqa: BLE001 - returned as data, never kills the pool
            acc.case(("guard", fname, repr(c)[:400]), True)
            try:
                wcode = code(GUARD_WITNESS.format(case=repr(c), modname=modname, fname=fname))
            except Exception:  # noqa: BLE001
                wcode = "raise AssertionError('case could not be rendered')"
            acc.fail(clause, f"oracle-not-applicable:{type(e).__name__}", {"case": repr(c)[:2000], "code": wcode},
                     f"{type(e).__name__}: {e}\n" + traceback.format_exc()[-1500:])
            continue
        acc.n += n
        acc.keys |= keys
        for smp in samples:
            if len(acc.samples) < 2:
                acc.samples.append(smp)
        seen = Counter()
        for f in failures:
            seen[(f["clause"], f["cls"])] += 1
            acc.fail(f["clause"], f["cls"], f["witness"], f.get("detail", ""))
        for k, v in stats.items():
            if k[0] == "fail":
                extra = v - seen[(k[1], k[2])]
                if extra > 0:
                    acc.stats[k] += extra
            elif k[0] == "max":
                acc.stats[k] = max(acc.stats.get(k, 0.0), v)
            else:
                acc.stats[k] += v
    return acc.pack()


def guard(modname, fname, clause):
    """picklable worker for `pmap`: the named worker applied case by case under `_guarded_call`"""
    import functools

    return functools.partial(_guarded_call, modname, fname, clause)
