"""Development aid (not used by ./check): in-process mutants of the parser (monkeypatches,
/repo is not touched) to see whether the bounded drivers notice them.
usage: python -m vf.bounded._parser_mutants <prop> <mutant>"""
import sys, time
from collections import Counter

from vf import core


def _patch_operators(fn):
    from formulaic.parser.parser import DefaultOperatorResolver

    orig = DefaultOperatorResolver.operators.fget

    def operators(self):
        ops = orig(self)
        return fn(ops) or ops

    DefaultOperatorResolver.operators = property(operators)


def m_swap_prec(ops):
    for o in ops:
        if o.symbol == ":":
            o.precedence = 200
        elif o.symbol == "*":
            o.precedence = 300


def m_minus_right(ops):
    for o in ops:
        if o.symbol == "-" and o.arity == 2:
            o.associativity = "right"


def m_bar_swapped(ops):
    for o in ops:
        if o.symbol == "|":
            f = o._to_terms
            o._to_terms = lambda lhs, rhs, f=f: f(rhs, lhs)


def m_caret_is_colon(ops):
    colon = [o for o in ops if o.symbol == ":"][0]
    for o in ops:
        if o.symbol == "^":
            o._to_terms = lambda a, b: a


def m_star_no_interaction(ops):
    for o in ops:
        if o.symbol == "*":
            from formulaic.parser.types import OrderedSet
            import itertools
            o._to_terms = lambda *ts: OrderedSet(itertools.chain(*ts))


def m_in_not_inverted(ops):
    slash = [o for o in ops if o.symbol == "/"][0]
    for o in ops:
        if o.symbol == "in":
            o._to_terms = slash._to_terms


def m_unary_minus_identity(ops):
    for o in ops:
        if o.symbol == "-" and o.arity == 1:
            o._to_terms = lambda terms: terms


def m_reverse_degree_sort():
    from formulaic.formula import SimpleFormula, OrderingMethod

    orig = SimpleFormula._reorder

    def _reorder(self, ordering=None):
        orig(self, ordering)
        if OrderingMethod(ordering if ordering is not None else self.ordering) is OrderingMethod.DEGREE:
            self._SimpleFormula__terms = sorted(self._SimpleFormula__terms, key=lambda t: -t.degree)

    SimpleFormula._reorder = _reorder


def m_no_intercept_after_bar():
    import formulaic.parser.parser as P

    orig = P.insert_tokens_after

    def ita(tokens, pattern, *a, **k):
        if pattern == r"\|":
            return iter(list(tokens))
        return orig(tokens, pattern, *a, **k)

    P.insert_tokens_after = ita


def m_ws_ends_operator():
    """whitespace ending an operator token"""
    import formulaic.parser.parser  # noqa
    T = sys.modules['formulaic.parser.algos.tokenize']
    import re, inspect

    src = inspect.getsource(T.tokenize).replace("if token and token.kind is not Token.Kind.OPERATOR:\n                yield token\n                token = Token(source=formula)\n            continue", "if token:\n                yield token\n                token = Token(source=formula)\n            continue", 1)
    ns = dict(T.__dict__)
    exec(src, ns)
    T.tokenize = ns["tokenize"]
    import formulaic.parser.parser as P
    import formulaic.parser.types.formula_parser as FP
    P.tokenize = ns["tokenize"]


def m_quote_mix():
    """' closes a " context"""
    import formulaic.parser.parser  # noqa
    T = sys.modules['formulaic.parser.algos.tokenize']
    import inspect

    src = inspect.getsource(T.tokenize).replace("if quote_context and char == quote_context[-1]:", "if quote_context and (char == quote_context[-1] or (char in '\\'\"' and quote_context[-1] in '\\'\"')):", 1)
    ns = dict(T.__dict__)
    exec(src, ns)
    T.tokenize = ns["tokenize"]
    import formulaic.parser.parser as P
    P.tokenize = ns["tokenize"]


def m_span_end_not_updated():
    from formulaic.parser.types.token import Token

    orig = Token.update

    def update(self, char, source_index, kind=None):
        end = self.source_end
        r = orig(self, char, source_index, kind)
        if char == "\\" and end is not None:
            self.source_end = end
        return r

    Token.update = update


def m_no_min_index_check():
    import formulaic.parser.parser  # noqa
    A = sys.modules['formulaic.parser.algos.tokens_to_ast']
    import inspect

    src = inspect.getsource(A.tokens_to_ast).replace("if min_index < 0 or max_index > len(output_queue):", "if max_index > len(output_queue):", 1)
    ns = dict(A.__dict__)
    exec(src, ns)
    A.tokens_to_ast = ns["tokens_to_ast"]
    import formulaic.parser.algos as AL
    AL.tokens_to_ast = ns["tokens_to_ast"]


def m_no_unterminated_check():
    import formulaic.parser.parser  # noqa
    T = sys.modules['formulaic.parser.algos.tokenize']
    import inspect

    src = inspect.getsource(T.tokenize).replace("    if quote_context:\n        raise exc_for_token(", "    if False:\n        raise exc_for_token(", 1)
    ns = dict(T.__dict__)
    exec(src, ns)
    T.tokenize = ns["tokenize"]
    import formulaic.parser.parser as P
    P.tokenize = ns["tokenize"]


def m_flag_ignored(ops):
    for o in ops:
        if o.symbol == "|":
            o.disabled = False


def m_format_expr_identity():
    import formulaic.parser.algos.sanitize_tokens as S
    S.format_expr = lambda e: e


MUTANTS = {
    "swap-prec": lambda: _patch_operators(m_swap_prec),
    "minus-right": lambda: _patch_operators(m_minus_right),
    "bar-swapped": lambda: _patch_operators(m_bar_swapped),
    "caret-other": lambda: _patch_operators(m_caret_is_colon),
    "star-no-interaction": lambda: _patch_operators(m_star_no_interaction),
    "in-not-inverted": lambda: _patch_operators(m_in_not_inverted),
    "unary-minus-identity": lambda: _patch_operators(m_unary_minus_identity),
    "reverse-degree": m_reverse_degree_sort,
    "no-intercept-after-bar": m_no_intercept_after_bar,
    "ws-ends-operator": m_ws_ends_operator,
    "quote-mix": m_quote_mix,
    "span-end": m_span_end_not_updated,
    "no-min-index": m_no_min_index_check,
    "no-unterminated": m_no_unterminated_check,
    "flag-ignored": lambda: _patch_operators(m_flag_ignored),
    "format-identity": m_format_expr_identity,
    "none": lambda: None,
}


def main():
    prop, mutant = sys.argv[1], sys.argv[2]
    MUTANTS[mutant]()
    import importlib

    ctx = core.Ctx(prop.upper(), "quick", 0)
    mod = importlib.import_module(f"vf.bounded.{prop.lower()}")
    t = time.time()
    mod.run_bounded(ctx)
    c = Counter((v["clause"], v["witness"]["cls"]) for v in ctx.violations)
    print(f"== {prop} mutant={mutant} wall={time.time()-t:.1f}s classes={len(c)}")
    for k, n in sorted(c.items()):
        print("   ", k, n)


if __name__ == "__main__":
    main()
