"""Independent spec functions (oracles) for C12/C13, written from the textbook definitions in
exact rational arithmetic.  They never import formulaic.  Their source text is embedded into
witness programs with `inspect.getsource`, so every function here must be self-contained
(imports inside the function body)."""
from __future__ import annotations


# --------------------------------------------------------------------------- C13: poly
def exact_orthopoly(x_train, degree, x_eval=None, with_kappa=False):
    """Discrete orthonormal polynomials on the points `x_train` (floats, taken as exact
    rationals), by Gram-Schmidt on the monomials 1, x, .., x^degree under <f,g> = sum f(x_i)g(x_i),
    in exact Fraction arithmetic.  Returns the float matrix E (len(x_eval) x degree) whose
    column k-1 is p_k / ||p_k|| (p_k monic of degree k, orthogonal to all lower degrees)
    evaluated at x_eval (default: the training points).  Requires > degree distinct points.
    with_kappa=True additionally returns kappa = (1 + max|x| / rms(x - mean)) * max_k ||(x - mean)^k|| / ||p_k||,
    the cancellation factors inherent in forming x - mean and in producing p_k from powers of
    x - mean (a property of the data alone)."""
    import math
    from fractions import Fraction

    xs = [Fraction(float(v)) for v in x_train]
    ys = xs if x_eval is None else [Fraction(float(v)) for v in x_eval]
    P = [[Fraction(1)] * len(xs)]  # values on the training points
    R = [[Fraction(1)] * len(ys)]  # values on the evaluation points
    norms = [Fraction(len(xs))]
    mean = sum(xs) / len(xs)
    kappa2 = Fraction(1)
    for k in range(1, degree + 1):
        v = [xi**k for xi in xs]
        r = [yi**k for yi in ys]
        for j in range(k):
            c = sum(a * b for a, b in zip(v, P[j])) / norms[j]
            v = [a - c * b for a, b in zip(v, P[j])]
            r = [a - c * b for a, b in zip(r, R[j])]
        nn = sum(a * a for a in v)
        if nn == 0:
            raise ValueError("fewer than degree+1 distinct points")
        P.append(v)
        R.append(r)
        norms.append(nn)
        kappa2 = max(kappa2, sum((xi - mean) ** (2 * k) for xi in xs) / nn)

    def fsqrt(q):  # sqrt of a positive Fraction, to double precision, without over/underflow
        n, d = q.numerator, q.denominator
        sh = 2 * 600
        return math.isqrt((n << sh) // d) / float(1 << 600) if n else 0.0

    out = [[0.0] * degree for _ in ys]
    for k in range(1, degree + 1):
        nk = norms[k]
        # value = r / sqrt(nk) = sign(r) * sqrt(r^2 / nk), computed from the exact ratio
        for i, rv in enumerate(R[k]):
            val = fsqrt(rv * rv / nk)
            out[i][k - 1] = -val if rv < 0 else val
    if with_kappa:
        big = max(abs(v) for v in xs)
        return out, fsqrt(kappa2) * (1.0 + fsqrt(big * big * len(xs) / norms[1]))
    return out


# --------------------------------------------------------------------------- C12: B-splines
def cox_de_boor(knots, degree, x):
    """All B-spline basis functions N_{i,degree}(x), i = 0..len(knots)-degree-2, on the knot
    vector `knots` (non-decreasing, floats taken as exact rationals) at the single point x, by
    the Cox-de Boor recursion with the 0/0 := 0 convention, in exact Fraction arithmetic.
    Half-open degree-0 pieces [t_i, t_{i+1}), closed at the right end of the base interval
    (x == knots[-1] belongs to the last non-empty interval), as in de Boor / scipy / R."""
    from fractions import Fraction

    t = [Fraction(float(k)) for k in knots]
    x = Fraction(float(x))
    m = len(t) - 1
    lo, hi = t[degree], t[m - degree]
    # degree 0
    N = [Fraction(0)] * m
    if x == hi and hi > lo:
        # last non-empty interval whose right end is hi
        j = max(i for i in range(m) if t[i] < t[i + 1] and t[i + 1] == hi)
        N[j] = Fraction(1)
    else:
        for i in range(m):
            if t[i] <= x < t[i + 1]:
                N[i] = Fraction(1)
    for d in range(1, degree + 1):
        M = []
        for i in range(m - d):
            a = Fraction(0)
            if t[i + d] != t[i]:
                a += (x - t[i]) / (t[i + d] - t[i]) * N[i]
            if t[i + d + 1] != t[i + 1]:
                a += (t[i + d + 1] - x) / (t[i + d + 1] - t[i + 1]) * N[i + 1]
            M.append(a)
        N = M
    return N


def bspline_extended(knots, degree, x):
    """B-spline basis at x where x may lie outside the base interval [knots[degree],
    knots[-degree-1]]: the polynomial pieces of the first / last non-empty knot interval are
    continued ('extending the polynomials of the B-spline', as R's splines::bs does outside the
    boundary knots).  Evaluated exactly: on each side every basis function is a polynomial of
    degree <= `degree`, so it is recovered by exact Lagrange interpolation through degree+1
    points strictly inside the boundary interval."""
    from fractions import Fraction

    t = [Fraction(float(k)) for k in knots]
    xq = Fraction(float(x))
    m = len(t) - 1
    lo, hi = t[degree], t[m - degree]
    if lo <= xq <= hi:
        return cox_de_boor(knots, degree, x)
    inner = sorted(set(t))
    if xq < lo:
        a, b = inner[0], inner[1]
    else:
        a, b = inner[-2], inner[-1]
    nodes = [a + (b - a) * Fraction(j + 1, degree + 2) for j in range(degree + 1)]
    vals = [_cdb_fraction(t, degree, nd) for nd in nodes]
    out = []
    for i in range(len(vals[0])):
        s = Fraction(0)
        for j, nj in enumerate(nodes):
            w = Fraction(1)
            for l, nl in enumerate(nodes):
                if l != j:
                    w *= (xq - nl) / (nj - nl)
            s += w * vals[j][i]
        out.append(s)
    return out


def _cdb_fraction(t, degree, x):
    """cox_de_boor for Fraction knots and a Fraction x strictly inside the base interval."""
    from fractions import Fraction

    m = len(t) - 1
    N = [Fraction(1) if t[i] <= x < t[i + 1] else Fraction(0) for i in range(m)]
    for d in range(1, degree + 1):
        M = []
        for i in range(m - d):
            a = Fraction(0)
            if t[i + d] != t[i]:
                a += (x - t[i]) / (t[i + d] - t[i]) * N[i]
            if t[i + d + 1] != t[i + 1]:
                a += (t[i + d + 1] - x) / (t[i + d + 1] - t[i + 1]) * N[i + 1]
            M.append(a)
        N = M
    return N


# --------------------------------------------------------------------------- C12: cubic splines
def cardinal_cubic(knots, x, periodic=False):
    """Values at x of the cardinal basis of the interpolating cubic spline through `knots`
    (strictly increasing): function j is the natural (s''=0 at both ends) resp. periodic
    (s, s', s'' agree at both ends) cubic spline with s(knots[i]) = [i == j].  For the periodic
    case the last knot is identified with the first, so there are len(knots)-1 functions and x is
    first wrapped into [knots[0], knots[-1]].  Outside the knot range the natural spline is
    continued linearly (its second derivative is zero at the ends).  Textbook second-moment
    formulation, solved exactly by Gaussian elimination over Fractions."""
    from fractions import Fraction

    t = [Fraction(float(k)) for k in knots]
    n = len(t) - 1  # intervals
    h = [t[i + 1] - t[i] for i in range(n)]
    xq = Fraction(float(x))

    def solve(A, B):  # A square (list of rows), B list of rows (multiple right-hand sides)
        k = len(A)
        A = [row[:] + b[:] for row, b in zip(A, B)]
        for c in range(k):
            p = next(r for r in range(c, k) if A[r][c] != 0)
            A[c], A[p] = A[p], A[c]
            pv = A[c][c]
            A[c] = [v / pv for v in A[c]]
            for r in range(k):
                if r != c and A[r][c] != 0:
                    f = A[r][c]
                    A[r] = [v - f * w for v, w in zip(A[r], A[c])]
        return [row[k:] for row in A]

    if periodic and (xq > t[n] or xq < t[0]):
        xq = t[0] + (xq - t[0]) % (t[n] - t[0])
    cache = cardinal_cubic.__dict__.setdefault("_cache", {})  # moments depend on the knots only
    ckey = (tuple(t), bool(periodic))
    if ckey in cache:
        nf, Mall, Y = cache[ckey]
    elif periodic:
        nf = n  # number of basis functions / free values y_0..y_{n-1}, y_n == y_0
        # moments M_0..M_{n-1} (M_n == M_0); equation at knot i (cyclically):
        # h_{i-1} M_{i-1} + 2 (h_{i-1}+h_i) M_i + h_i M_{i+1} = 6 ((y_{i+1}-y_i)/h_i - (y_i-y_{i-1})/h_{i-1})
        A = [[Fraction(0)] * n for _ in range(n)]
        B = [[Fraction(0)] * nf for _ in range(n)]
        for i in range(n):
            hm, hp = h[(i - 1) % n], h[i]
            A[i][(i - 1) % n] += hm
            A[i][i] += 2 * (hm + hp)
            A[i][(i + 1) % n] += hp
            B[i][(i + 1) % n] += 6 / hp
            B[i][i] += -6 / hp - 6 / hm
            B[i][(i - 1) % n] += 6 / hm
        if n == 1:
            # single interval, one function: the periodic spline through one value is constant
            Mfree = [[Fraction(0)]]
        else:
            Mfree = solve(A, B)  # n x nf
        Mall = Mfree + [Mfree[0]]
        Y = [[Fraction(1) if i % n == j else Fraction(0) for j in range(nf)] for i in range(n + 1)]
    else:
        nf = n + 1
        # natural: M_0 = M_n = 0; interior equations i = 1..n-1
        Mall = [[Fraction(0)] * nf for _ in range(n + 1)]
        if n >= 2:
            k = n - 1
            A = [[Fraction(0)] * k for _ in range(k)]
            B = [[Fraction(0)] * nf for _ in range(k)]
            for r, i in enumerate(range(1, n)):
                hm, hp = h[i - 1], h[i]
                if r > 0:
                    A[r][r - 1] = hm
                A[r][r] = 2 * (hm + hp)
                if r < k - 1:
                    A[r][r + 1] = hp
                B[r][i + 1] += 6 / hp
                B[r][i] += -6 / hp - 6 / hm
                B[r][i - 1] += 6 / hm
            sol = solve(A, B)
            for r, i in enumerate(range(1, n)):
                Mall[i] = sol[r]
        Y = [[Fraction(1) if i == j else Fraction(0) for j in range(nf)] for i in range(n + 1)]
    cache[ckey] = (nf, Mall, Y)

    # locate the interval
    if xq <= t[0]:
        i = 0
    elif xq >= t[n]:
        i = n - 1
    else:
        i = max(j for j in range(n) if t[j] <= xq)
    out = []
    for j in range(nf):
        yi, yi1 = Y[i][j], Y[i + 1][j]
        Mi, Mi1 = Mall[i][j], Mall[i + 1][j]
        hi = h[i]
        if (not periodic) and (xq < t[0] or xq > t[n]):
            # linear continuation with the end slope
            if xq < t[0]:
                slope = (yi1 - yi) / hi - hi * (2 * Mi + Mi1) / 6
                out.append(yi + slope * (xq - t[0]))
            else:
                slope = (yi1 - yi) / hi + hi * (Mi + 2 * Mi1) / 6
                out.append(yi1 + slope * (xq - t[n]))
            continue
        a, b = t[i + 1] - xq, xq - t[i]
        out.append(
            Mi * a**3 / (6 * hi)
            + Mi1 * b**3 / (6 * hi)
            + (yi / hi - Mi * hi / 6) * a
            + (yi1 / hi - Mi1 * hi / 6) * b
        )
    return out
