"""C03 bounded stand-in: rank reduction gives linearly independent columns with unchanged span.

For every *ordered* list of terms over a small set of factors (each factor is one data column, either
numeric or categorical with 1..3 levels, so "each data variable is encoded by a single factor
expression" holds), on a fully crossed design with replicates and generic numeric values:

    X_on  = model_matrix(terms, data, ensure_full_rank=True)
    X_off = model_matrix(terms, data, ensure_full_rank=False)

    (R1)  rank(X_on) == ncol(X_on)                                   columns independent
    (R2)  rank(X_off) == rank([X_off | X_on]) == rank(X_on)          same column space

Quick tier: exact rational arithmetic (all data are integers, so the matrices are integer matrices;
rank over Q by sympy's DomainMatrix).  Thorough tier adds 4 factors, every built-in contrast,
`cluster_by`, reversed factor order inside terms, intercept written last; the 4-factor / contrast scopes
use a floating SVD rank (tolerance stated below).  Nothing is reported unless it fails on TWO independent
data sets (different generic values, different row order), which removes accidents of "general position".
"""
from __future__ import annotations

import hashlib
import itertools
import math
import random
import traceback
from concurrent.futures import ProcessPoolExecutor

import numpy

from . import _matrix_frames as mf
from ._matrix_report import emit_round_robin

MAX_WITNESS_PER_CLASS = 5
TYPES = ("num", "cat1", "cat2", "cat3")
SVD_RTOL = 1e-9  # singular values below SVD_RTOL * sigma_max (columns normalised first) count as zero

CONTRASTS = (
    "contr.treatment",
    "contr.treatment(base='y')" ,  # placeholder, base is rewritten per factor (second level)
    "contr.SAS",
    "contr.sum",
    "contr.helmert",
    "contr.helmert(reverse=False)",
    "contr.helmert(scale=True)",
    "contr.diff",
    "contr.diff(backward=False)",
    "contr.poly",
)


def _digest(key) -> bytes:
    return hashlib.blake2b(repr(key).encode(), digest_size=8).digest()


# --------------------------------------------------------------------------- scope
def _level_labels(name, L):
    """Default string labels of a categorical factor with L (1..9) levels, in level order."""
    pool = list(mf.LEVEL_POOL[name])
    return (pool + [f"{name.lower()}{k}" for k in range(len(pool) + 1, L + 1)])[:L]


def _is_cat(t):
    return t.startswith("cat")


def _factor_names(types):
    return [mf.CAT_NAMES[i] if _is_cat(t) else mf.NUM_NAMES[i] for i, t in enumerate(types)]


def _type_multisets(nf, types=TYPES):
    return list(itertools.combinations_with_replacement(types, nf))


def _term_sets(nf, max_terms):
    terms = [fs for k in range(1, nf + 1) for fs in itertools.combinations(range(nf), k)]
    for k in range(1, max_terms + 1):
        yield from itertools.combinations(terms, k)


def _replicates(types):
    # per cell of the categorical design the numeric monomials (<= 2^#numeric of them) must be
    # linearly independent for the design to be "in general position"
    # (a spline factor "bsK" contributes K functions of its variable, a plain numeric 2: the constant and itself)
    return max(2, math.prod(2 if t == "num" else int(t[2:]) for t in types if not _is_cat(t)))


_FRAMES = {}

# Level-label schemes: which python values name the levels of every categorical factor, and how the column is
# stored.  (labels for L levels in level order, flavor).  "int64"/"bool" are plain numpy columns that become
# categorical only because the formula says C(name).  None = the default string labels.
LABEL_SCHEMES = {
    "int-zero-first": (lambda L: list(range(L)), "category"),
    "int-zero-not-first": (lambda L: [1, 2, 0][3 - L:] if L < 3 else [1, 2, 0], "category"),
    "int-object": (lambda L: list(range(L)), "object"),
    "bool-false-first": (lambda L: [False, True][:L] if L <= 2 else [0, 1, 2], "category"),
    "bool-true-first": (lambda L: [True, False][:L] if L <= 2 else [2, 0, 1], "category"),
    "empty-string-first": (lambda L: ["", "x", "y"][:L], "object"),
    "empty-string-not-first": (lambda L: ["x", "", "y"][:L] if L > 1 else [""], "category"),
    "raw-int-via-C": (lambda L: list(range(L)), "int64"),
    "raw-bool-via-C": (lambda L: [False, True][:L] if L <= 2 else [0, 1, 2], "rawbool"),
}


def _scheme_column(name, L, scheme):
    labels_fn, flavor = LABEL_SCHEMES[scheme]
    labels = labels_fn(L)
    if flavor == "rawbool":
        flavor = "bool" if L <= 2 else "int64"
    return (name, L, flavor, labels)


def _frames_for(types, seed, integer, scheme=None):
    """Two independent fully crossed data sets for a type tuple (cached per process)."""
    key = (types, seed, integer, scheme)
    if key not in _FRAMES:
        names = _factor_names(types)
        if scheme is None:
            cats = [(names[i], int(t[3]), "category" if i % 2 == 0 else "object", _level_labels(names[i], int(t[3])))
                    for i, t in enumerate(types) if _is_cat(t)]
        else:
            cats = [_scheme_column(names[i], int(t[3]), scheme) for i, t in enumerate(types) if _is_cat(t)]
        nums = [names[i] for i, t in enumerate(types) if not _is_cat(t)]
        out = []
        for which in (0, 1):
            rng = random.Random(f"{seed}/{types}/{which}/{scheme}")
            spec = mf.crossed_frame_spec(rng, cats, nums, _replicates(types), integer=integer, shuffle_rows=True)
            out.append((spec, mf.build_frame(spec)))
        _FRAMES[key] = out
    return _FRAMES[key]


def _factor_text(name, typ, contrast, scheme=None):
    if typ == "num":
        return name
    if typ.startswith("bs"):
        # a NUMERIC multi-column factor that spans the intercept: the K B-spline basis functions sum to one
        return f"bs({name}, df={int(typ[2:])}, include_intercept=True)"
    if contrast is None:
        # plain numpy int/bool columns are categorical only through C(...)
        return f"C({name})" if scheme is not None and scheme.startswith("raw-") else name
    if contrast.startswith("contr.treatment(base"):
        lv = _level_labels(name, int(typ[3]))[min(1, int(typ[3]) - 1)]
        return f"C({name}, contr.treatment(base={lv!r}))"
    return f"C({name}, {contrast})"


def _term_strings(types, terms, contrast, within, scheme=None):
    """within: False = factors written in ascending order, True = descending, or a tuple giving for every term the
    order in which its factors are written (a permutation of the term's factor indices)."""
    names = _factor_names(types)
    out = []
    for j, fs in enumerate(terms):
        order = fs if within in (False, True) else within[j]
        parts = [_factor_text(names[i], types[i], contrast, scheme) for i in order]
        if within is True:
            parts.reverse()
        out.append(":".join(parts))
    return out


def _within_orders(terms):
    """Every way of writing the factors inside each term of `terms` except the all-ascending one."""
    for orders in itertools.product(*(itertools.permutations(fs) for fs in terms)):
        if orders != tuple(terms):
            yield orders


# --------------------------------------------------------------------------- ranks
def _exact_rank(M):
    """Rank over Q of a float matrix whose entries are read exactly (integers, or dyadic floats)."""
    from fractions import Fraction

    from sympy import QQ, ZZ
    from sympy.polys.matrices import DomainMatrix

    if M.shape[0] == 0 or M.shape[1] == 0:
        return 0
    R = numpy.rint(M)
    if numpy.array_equal(R, M) and numpy.abs(M).max() < 2**52:
        rows = [[int(x) for x in r] for r in R]
        # identical rows do not change the rank
        rows = [list(r) for r in dict.fromkeys(tuple(r) for r in rows)]
        return DomainMatrix(rows, (len(rows), M.shape[1]), ZZ).convert_to(QQ).rank()
    rows = [[QQ(Fraction(float(x))) for x in r] for r in M]
    return DomainMatrix(rows, M.shape, QQ).rank()


def _svd_rank(M):
    if M.shape[0] == 0 or M.shape[1] == 0:
        return 0
    norms = numpy.linalg.norm(M, axis=0)
    M = M[:, norms > 0] / norms[norms > 0]
    if M.shape[1] == 0:
        return 0
    s = numpy.linalg.svd(M, compute_uv=False)
    return int((s > SVD_RTOL * s[0]).sum())


class _Ranker:
    def __init__(self, exact):
        self.fn = _exact_rank if exact else _svd_rank
        self.cache = {}

    def rank(self, M):
        key = (M.shape, hashlib.blake2b(numpy.ascontiguousarray(M).tobytes(), digest_size=16).digest())
        if key not in self.cache:
            self.cache[key] = self.fn(M)
        return self.cache[key]


def _canon(names, X):
    """Columns sorted by name (rank and span do not depend on column order); makes caching effective."""
    order = sorted(range(len(names)), key=lambda j: names[j])
    return numpy.ascontiguousarray(X[:, order])


# --------------------------------------------------------------------------- one build
_TERM_OBJECTS = {}


def _term_object(text):
    """Parse one term string once per process ('1' is the intercept term)."""
    import formulaic

    if text not in _TERM_OBJECTS:
        parsed = list(formulaic.Formula([text], _ordering="none"))
        if len(parsed) != 1:
            raise AssertionError(f"{text!r} does not parse to exactly one term: {parsed}")
        _TERM_OBJECTS[text] = parsed[0]
    return _TERM_OBJECTS[text]


def _build(term_strings, df, rank, cluster_by):
    import formulaic

    f = formulaic.Formula([_term_object(t) for t in term_strings], _ordering="none")
    kw = {"cluster_by": cluster_by} if cluster_by != "none" else {}
    mm = formulaic.model_matrix(f, df, ensure_full_rank=rank, output="numpy", **kw)
    names = list(mm.model_spec.column_names)
    X = numpy.asarray(mm, dtype=float)
    if X.ndim != 2 or X.shape[1] != len(names):
        raise AssertionError(f"matrix shape {X.shape} vs {len(names)} column names")
    return names, X


WITNESS = '''\
import random, numpy, pandas, formulaic
from fractions import Fraction
from sympy import QQ
from sympy.polys.matrices import DomainMatrix
{frame}
terms = {terms!r}      # in this order, no re-ordering by degree
kw = {kw!r}
f = formulaic.Formula(terms, _ordering="none")
on = numpy.asarray(formulaic.model_matrix(f, df, ensure_full_rank=True, output="numpy", **kw), dtype=float)
off = numpy.asarray(formulaic.model_matrix(f, df, ensure_full_rank=False, output="numpy", **kw), dtype=float)
exact = {exact!r}
def rank(M):
    if M.shape[1] == 0:
        return 0
    if exact:   # entries are integers: exact rank over Q
        return DomainMatrix([[QQ(Fraction(float(x))) for x in r] for r in M], M.shape, QQ).rank()
    n = numpy.linalg.norm(M, axis=0); M = M[:, n > 0] / n[n > 0]
    s = numpy.linalg.svd(M, compute_uv=False)
    return int((s > {rtol!r} * s[0]).sum())
r_on, r_off, r_both = rank(on), rank(off), rank(numpy.hstack([off, on]))
print("ncol_on", on.shape[1], "rank_on", r_on, "rank_off", r_off, "rank_both", r_both)
assert r_on == on.shape[1], "columns of the rank-reduced matrix are linearly dependent"
assert r_off == r_both == r_on, "column space differs from the one without rank reduction"
'''


def _judge(names_on, X_on, names_off, X_off, ranker):
    """-> None if the contract holds, else (clause, cls, detail)."""
    r_off = ranker.rank(_canon(names_off, X_off))
    C_on = _canon(names_on, X_on)
    r_on = ranker.rank(C_on)
    if r_on != X_on.shape[1]:
        return ("C03.rank.independent", "dependent-columns",
                f"rank(X_on)={r_on} < ncol(X_on)={X_on.shape[1]}; columns {names_on}")
    both_names = [("0", n) for n in names_off] + [("1", n) for n in names_on]
    B = numpy.hstack([X_off, X_on])
    order = sorted(range(len(both_names)), key=lambda j: both_names[j])
    r_both = ranker.rank(numpy.ascontiguousarray(B[:, order]))
    if not (r_off == r_both == r_on):
        if r_both > r_off:
            cls = "span-not-contained"
        elif r_on < r_off:
            cls = "span-smaller"
        else:
            cls = "span-differs"
        return ("C03.span.equal", cls,
                f"rank(X_off)={r_off} rank([X_off|X_on])={r_both} rank(X_on)={r_on}; X_on columns {names_on}; X_off columns {names_off}")
    return None


def _unit(args):
    try:
        return _unit_body(args)
    except Exception as e:  # nothing may escape a pool worker
        types, terms = args[0], args[1]
        try:
            tlist = _term_strings(types, terms, args[4], args[6], args[9] if len(args) > 9 else None)
        except Exception:
            tlist = [repr(terms)]
        key = (types, tuple(tlist), args[4], args[5], args[9] if len(args) > 9 else None)
        return 1, set(), [], [("C03.builds", f"oracle-not-applicable:{type(e).__name__}",
                               f"{type(e).__name__}: {e}\n{traceback.format_exc()[-1500:]}", types, tlist, 0, key)]


def _unit_body(args):
    """All orderings (x intercept modes) of one term set for one type tuple."""
    (types, terms, seed, exact, contrast, cluster_by, reverse_within, intercept_modes, perm_limit) = args[:9]
    scheme = args[9] if len(args) > 9 else None
    scaled = args[10] if len(args) > 10 else None  # (index of the decorated term in `terms`, literal text, "first"|"last")
    frames = _frames_for(types, seed, integer=True, scheme=scheme)
    rankers = _RANKERS.setdefault((types, exact, scheme), (_Ranker(exact), _Ranker(exact)))
    tstrings = _term_strings(types, terms, contrast, reverse_within, scheme)
    if scaled is not None:
        j, lit, where = scaled
        tstrings[j] = f"{lit}:{tstrings[j]}" if where == "first" else f"{tstrings[j]}:{lit}"
    n_eval, keys, samples, failures = 0, set(), [], []
    off_cache = {}

    def build_off(which, tlist):
        k = (which, "1" in tlist)
        if k not in off_cache:
            off_cache[k] = _build(tlist, frames[which][1], False, cluster_by)
        return off_cache[k]

    perms = list(itertools.permutations(tstrings))
    if perm_limit and len(perms) > perm_limit:
        perms = random.Random(f"{seed}/{types}/{terms}/{reverse_within}").sample(perms, perm_limit)
    for mode in intercept_modes:  # "off", "first", "last"
        for perm in perms:
            tlist = list(perm)
            if mode == "first":
                tlist = ["1"] + tlist
            elif mode == "last":
                tlist = tlist + ["1"]
            try:
                names_off, X_off = build_off(0, tlist)
                names_on, X_on = _build(tlist, frames[0][1], True, cluster_by)
            except Exception as e:
                n_eval += 1
                keys_key = (types, tuple(tlist), contrast, cluster_by, scheme)
                failures.append(("C03.builds", f"raises-{type(e).__name__}", f"{type(e).__name__}: {e}", types, tlist, 0, keys_key))
                continue
            n_eval += 1
            key = (types, tuple(tlist), contrast, cluster_by, scheme)
            try:
                verdict = _judge(names_on, X_on, names_off, X_off, rankers[0])
                # non-trivial: the unreduced matrix is rank deficient, i.e. reduction had something to do
                r_off = rankers[0].rank(_canon(names_off, X_off))
            except Exception as e:
                # the rank / span computation is not applicable to what was returned (NaN / inf / object cells, ...):
                # an outcome of this case; the witness program computes the same ranks and fails the same way
                failures.append(("C03.rank.independent", f"oracle-not-applicable:{type(e).__name__}",
                                 f"{type(e).__name__}: {e}", types, tlist, 0, key))
                continue
            if r_off < X_off.shape[1]:
                keys.add(_digest(key))
            if len(samples) < 1:
                samples.append({"types": types, "terms": tlist, "contrast": contrast, "cluster_by": cluster_by,
                                "labels": scheme, "ncol_off": int(X_off.shape[1]), "rank_off": int(r_off), "ncol_on": int(X_on.shape[1])})
            if verdict is None:
                continue
            # confirm on the second, independent data set before reporting
            try:
                n2_off, X2_off = build_off(1, tlist)
                n2_on, X2_on = _build(tlist, frames[1][1], True, cluster_by)
                verdict2 = _judge(n2_on, X2_on, n2_off, X2_off, rankers[1])
            except Exception as e:
                verdict2 = ("C03.builds", f"raises-{type(e).__name__}", str(e))
            if verdict2 is None or verdict2[0] != verdict[0]:
                failures.append(("NOTE", "unconfirmed", f"{verdict} on data set 0 but {verdict2} on data set 1", types, tlist, 0, key))
                continue
            failures.append((verdict[0], verdict[1], verdict[2], types, tlist, 0, key))
    return n_eval, keys, samples, failures


_RANKERS = {}


def _scope(ctx, b, units, exact, label):
    totals, collected, notes = {}, [], []
    # most expensive units first (permutations x rows), small chunks: keeps the 16 workers evenly loaded
    def cost(u):
        nperm = u[8] if u[8] else math.factorial(len(u[1]))
        cells = math.prod(int(t[3]) for t in u[0] if _is_cat(t))
        return -(nperm * len(u[7]) * _replicates(u[0]) * cells)

    units = sorted(units, key=cost)
    with ProcessPoolExecutor(16) as ex:
        for n_eval, keys, samples, failures in ex.map(_unit, units, chunksize=4):
            b.add_counts(n_eval, keys, samples[:1] if len(b.samples) < 6 else ())
            for f in failures:
                if f[0] == "NOTE":
                    notes.append(f[2])
                    continue
                totals[(f[0], f[1])] = totals.get((f[0], f[1]), 0) + 1
                collected.append(f)
    collected.sort(key=lambda f: (len(f[4]), sum(len(t) for t in f[4]), f[3], f[4]))
    per_class, out = {}, []
    for clause, cls, detail, types, tlist, which, key in collected:
        k = (clause, cls)
        per_class[k] = per_class.get(k, 0) + 1
        if per_class[k] > MAX_WITNESS_PER_CLASS:
            continue
        contrast, cluster_by, scheme = key[2], key[3], key[4]
        spec = _frames_for(types, ctx.seed, True, scheme)[which][0]
        code = WITNESS.format(frame=mf.frame_code(spec), terms=list(tlist),
                              kw=({"cluster_by": cluster_by} if cluster_by != "none" else {}), exact=exact, rtol=SVD_RTOL)
        out.append((clause, {"terms": list(tlist), "types": list(types), "contrast": contrast, "cluster_by": cluster_by,
                             "labels": scheme, "scope": label, "frame": mf.spec_summary(spec), "cls": cls, "code": code}, detail))
    emit_round_robin(b, out, MAX_WITNESS_PER_CLASS)
    for k, n in sorted(totals.items()):
        ctx.notes.append(f"{label}: {k[0]} cls={k[1]}: {n} failing ordered term lists in total")
    if notes:
        ctx.notes.append(f"{label}: {len(notes)} apparent failures not confirmed on the second data set (not reported), e.g. {notes[0][:300]}")


def run_bounded(ctx):
    seed = ctx.seed
    # ---- scope 1: <= 3 factors, <= 4 terms, every permutation, intercept on/off, exact arithmetic
    units = []
    quick4 = set(_type_multisets(3, ("num", "cat2", "cat3"))) | {("num", "cat1", "cat2"), ("cat1", "cat1", "cat3"),
                                                                 ("num", "num", "cat1"), ("cat1", "cat2", "cat3")}
    for nf in (1, 2, 3):
        for types in _type_multisets(nf):
            for terms in _term_sets(nf, 4):
                if nf == 3 and len(terms) == 4 and not ctx.thorough and types not in quick4:
                    continue  # quick tier: 4-term sets on 14 of the 20 type multisets (all 20 in the thorough tier)
                units.append((types, terms, seed, True, None, "none", False, ("first", "off"), None))
    with ctx.bounded(
        "rank-span-3factors-exact",
        rule="a case = (factor types, ORDERED term list, intercept on/off); non-trivial = the unreduced matrix is rank "
             "deficient; ranks over Q by exact elimination (integer data); failures must repeat on a second data set",
        exhaustive=True,
        bound="<=3 factors (each numeric or categorical with 1..3 levels, all 20+10+4 type multisets), all term sets with "
              "<=3 terms on all of them and all 4-term sets on "
              + ("all of them" if ctx.thorough else "14 of the 20 three-factor multisets (numeric/2/3 levels + 4 with a 1-level factor)")
              + ", every permutation, intercept first/absent; fully crossed data, max(2, 2^#numeric) replicates, "
              "generic integer values; default treatment coding; factor order inside a term ascending",
    ) as b:
        _scope(ctx, b, units, True, "3factors")

    # ---- scope 1b: the order in which factors are WRITTEN inside each term (terms that share factors may list them
    # in different relative orders, e.g. A:B + B:A:D)
    units = []
    if ctx.thorough:
        order_types = {3: _type_multisets(3, ("num", "cat2", "cat3")) + [("num", "cat1", "cat2"), ("cat1", "cat1", "cat3"),
                                                                        ("num", "num", "cat1"), ("cat1", "cat2", "cat3")],
                       2: _type_multisets(2)}
    else:
        order_types = {3: [("cat3", "cat2", "cat3"), ("cat2", "cat3", "num")], 2: [("cat2", "cat3"), ("cat3", "num")]}
    for nf, type_list in order_types.items():
        for types in type_list:
            for terms in _term_sets(nf, 3):
                for orders in _within_orders(terms):
                    units.append((types, terms, seed, True, None, "none", orders, ("first", "off"), None))
    if ctx.thorough:
        rng4 = random.Random(seed + 11)
        for types in _type_multisets(3, ("num", "cat2", "cat3")):
            for terms in _term_sets(3, 4):
                if len(terms) == 4:
                    all_orders = list(_within_orders(terms))
                    for orders in rng4.sample(all_orders, min(4, len(all_orders))):
                        units.append((types, terms, seed, True, None, "none", orders, ("first", "off"), 6))
    with ctx.bounded(
        "rank-span-factor-order-inside-terms",
        rule="as rank-span-3factors-exact, but the factors inside every term are written in every order (independently per "
             "term; the all-ascending assignment is the scope above); a case = (types, ordered list of written terms, intercept)",
        exhaustive=True,
        bound=("2-3 factors, " + ("all 2-factor type multisets, 14 three-factor ones (numeric/2/3 levels + 4 with a 1-level factor)" if ctx.thorough else "type tuples (3,2,3 levels), (2 levels, 3 levels, numeric), (2,3 levels), (3 levels, numeric)")
               + ", all term sets <=3 terms x every assignment of within-term factor orders x every permutation of the terms x "
               "intercept first/absent" + ("; + 4-term sets: 4 seeded order assignments x 6 seeded permutations" if ctx.thorough else "")),
    ) as b:
        _scope(ctx, b, units, True, "factor-order")

    # ---- scope 1c: level LABELS that are not non-empty strings (integers incl. 0, booleans, the empty string; in first and
    # in non-first level position; stored as category / object / plain numpy column used through C(...))
    units = []
    if ctx.thorough:
        label_types = [(t, 3) for t in _type_multisets(1, ("cat1", "cat2", "cat3")) + _type_multisets(2)] + [
            (("num", "cat2", "cat3"), 3), (("cat2", "cat3", "cat3"), 3), (("num", "cat1", "cat2"), 3), (("num", "num", "cat3"), 3)]
    else:
        label_types = [(("cat1",), 1), (("cat2",), 1), (("cat3",), 1), (("cat2", "cat3"), 3), (("num", "cat3"), 3),
                       (("cat2", "cat2"), 3), (("num", "cat2", "cat3"), 2)]
    for types, max_terms in label_types:
        if all(t == "num" for t in types):
            continue
        for scheme in LABEL_SCHEMES:
            for terms in _term_sets(len(types), max_terms):
                units.append((types, terms, seed, True, None, "none", False, ("first", "off"), None, scheme))
    with ctx.bounded(
        "rank-span-level-labels",
        rule="as rank-span-3factors-exact with every categorical factor's levels labelled by a scheme: " + ", ".join(LABEL_SCHEMES),
        exhaustive=True,
        bound=("1-3 factors; " + ("all 1- and 2-factor type multisets and 4 three-factor tuples, all term sets <=3 terms"
                                 if ctx.thorough else
                                 "1 factor (1/2/3 levels), (2,3 levels), (numeric, 3 levels), (2,2 levels) with <=3 terms, (numeric, 2, 3 levels) with <=2 terms")
               + "; every permutation; intercept first/absent; 9 label schemes"),
    ) as b:
        _scope(ctx, b, units, True, "level-labels")

    # ---- scope 1d: a NUMERIC factor that spans the intercept (B-spline basis with include_intercept=True, columns sum to
    # one), alone, next to an intercept / a categorical / a numeric, and interacted with them.  Values are not integers and
    # "sum to one" holds only up to rounding, so ranks are numeric (SVD, tolerance as stated).
    units = []
    if ctx.thorough:
        spline_types = [(("bs4",), 1), (("bs5",), 1), (("cat2", "bs4"), 3), (("cat3", "bs4"), 3), (("cat3", "bs5"), 3), (("num", "bs4"), 3),
                        (("cat1", "bs4"), 3), (("bs4", "bs4"), 3), (("cat2", "cat3", "bs4"), 4), (("cat2", "num", "bs4"), 4),
                        (("cat3", "bs4", "bs4"), 3), (("cat2", "cat2", "bs5"), 3)]
    else:
        spline_types = [(("bs4",), 1), (("cat2", "bs4"), 3), (("cat3", "bs4"), 3), (("num", "bs4"), 3), (("cat2", "cat3", "bs4"), 3),
                        (("cat2", "num", "bs4"), 2)]
    for types, max_terms in spline_types:
        for terms in _term_sets(len(types), max_terms):
            units.append((types, terms, seed, False, None, "none", False, ("first", "off"), None))
    with ctx.bounded(
        "rank-span-numeric-factor-spanning-intercept",
        rule="factor vocabulary extended by bs(x, df=K, include_intercept=True) (type 'bsK', data inside the spline bounds); "
             f"ranks by SVD on column-normalised matrices (singular values <= {SVD_RTOL} * sigma_max are zero); replicates per "
             "cell = product of (2 per numeric, K per spline)",
        exhaustive=True,
        bound="type tuples " + ", ".join("(" + ",".join(t) + f")<= {m} terms" for t, m in spline_types)
              + "; all term sets, every permutation, intercept first/absent",
    ) as b:
        _scope(ctx, b, units, False, "spline-intercept")

    # ---- scope 1e: numeric literal multipliers.  One term of the set carries a literal scale (2:B, A:B:0.5, ...), at every
    # position of the set and in every ordering; a non-zero scale changes neither independence nor the span.
    units = []
    if ctx.thorough:
        lit_types = [(t, 3) for t in _type_multisets(1, ("num", "cat2", "cat3")) + _type_multisets(2) + _type_multisets(3)]
    else:
        lit_types = [(("cat2",), 1), (("cat2", "cat3"), 3), (("num", "cat3"), 3), (("num", "cat2", "cat3"), 3)]
    lits = ("2", "3", "0.5")
    n_sets = 0
    for types, max_terms in lit_types:
        for terms in _term_sets(len(types), max_terms):
            n_sets += 1
            for j in range(len(terms)):
                lit = lits[(n_sets + j) % 3] if ctx.thorough else "2"
                where = "last" if ctx.thorough and (n_sets + j) % 2 else "first"
                units.append((types, terms, seed, True, None, "none", False, ("first", "off"), None, None, (j, lit, where)))
    with ctx.bounded(
        "rank-span-literal-multipliers",
        rule="as rank-span-3factors-exact with one term of the set multiplied by a numeric literal (written first, e.g. 2:A:B"
             + ("; thorough: literal 2 / 3 / 0.5, written first or last" if ctx.thorough else "")
             + "); every choice of the decorated term, every permutation of the terms, intercept first/absent; exact ranks "
             "(0.5 is dyadic, so the rational arithmetic stays exact)",
        exhaustive=True,
        bound=("all 1-, 2- and 3-factor type multisets" if ctx.thorough else
               "type tuples (2 levels), (2,3 levels), (numeric, 3 levels), (numeric, 2, 3 levels)")
              + ", all term sets <=3 terms",
    ) as b:
        _scope(ctx, b, units, True, "literal-multiplier")

    # ---- scope 1f: the NUMBER OF LEVELS as a grid dimension for every built-in contrast (codings whose shape, names and
    # entries depend on the level count: poly degrees, helmert/diff ladders, ...).  SVD ranks (codings are not integer).
    units = []
    level_grid = range(2, 9)
    for contrast in CONTRASTS:
        for L in level_grid:
            shapes = [((f"cat{L}",), 1), (("num", f"cat{L}"), 3), ((f"cat{L}", "cat2"), 3 if ctx.thorough else 2)]
            if ctx.thorough:
                shapes += [((f"cat{L}", "cat3"), 2), (("num", "cat2", f"cat{L}"), 2)]
            for types, max_terms in shapes:
                for terms in _term_sets(len(types), max_terms):
                    units.append((types, terms, seed, False, contrast, "none", False, ("first", "off"), None))
    with ctx.bounded(
        "rank-span-contrasts-level-counts-svd",
        rule="every categorical factor written C(X, <contrast>), the first one with L = 2..8 levels; shapes: alone, with a "
             "numeric (x, C(A):x, main effect + interaction), next to another categorical; ranks by SVD on column-normalised "
             f"matrices (singular values <= {SVD_RTOL} * sigma_max are zero)",
        exhaustive=True,
        bound=f"contrasts {CONTRASTS}; L in 2..8; type tuples (L), (numeric, L) with <=3 terms, (L, 2 levels) with <="
              + ("3 terms, (L, 3 levels) and (numeric, 2 levels, L) with <=2 terms" if ctx.thorough else "2 terms")
              + "; all term sets, every permutation, intercept first/absent",
    ) as b:
        _scope(ctx, b, units, False, "contrast-level-counts")

    if ctx.thorough:
        rng = random.Random(seed + 3)
        # ---- scope 2: variants of scope 1 (exact)
        units = []
        for nf in (2, 3):
            assignments = _type_multisets(nf) + [tuple(reversed(t)) for t in _type_multisets(nf) if tuple(reversed(t)) != t]
            for types in assignments:  # sorted and reversed type order (changes which names sort first)
                for terms in _term_sets(nf, 4):
                    variant = rng.randrange(3)
                    lim = 6 if len(terms) == 4 else None
                    if variant == 0:
                        units.append((types, terms, seed, True, None, "numerical_factors", False, ("first", "off"), lim))
                    elif variant == 1:
                        units.append((types, terms, seed, True, None, "none", True, ("last", "off"), lim))
                    else:
                        units.append((types, terms, seed, True, None, "numerical_factors", True, ("last", "first"), lim))
        with ctx.bounded(
            "rank-span-3factors-variants",
            rule="as above with cluster_by='numerical_factors' / reversed factor order inside terms / intercept written last",
            exhaustive=False,
            bound="2-3 factors, all type multisets in ascending and in descending order, all term sets <=3 terms with every "
                  "permutation and all 4-term sets with 6 seeded permutations; one of three option variants per term set (seeded)",
        ) as b:
            _scope(ctx, b, units, True, "3factors-variants")

        # ---- scope 3: every built-in contrast (floating SVD; codings are not integer)
        units = []
        for nf in (1, 2, 3):
            for types in _type_multisets(nf, ("num", "cat2", "cat3")):
                if all(t == "num" for t in types):
                    continue
                for terms in _term_sets(nf, 3):
                    for contrast in CONTRASTS:
                        units.append((types, terms, seed, False, contrast, "none", False, ("first", "off"), None))
        with ctx.bounded(
            "rank-span-contrasts-svd",
            rule=f"every categorical factor written C(X, <contrast>); ranks by SVD on column-normalised matrices, singular "
                 f"values <= {SVD_RTOL} * sigma_max are zero",
            exhaustive=True,
            bound="<=3 factors (numeric / 2 / 3 levels), all term sets <=3 terms, every permutation, intercept first/absent, "
                  f"contrasts {CONTRASTS}",
        ) as b:
            _scope(ctx, b, units, False, "contrasts")

        units = []
        n_sets = 0
        for types, max_terms in ((("cat2", "cat3"), 3), (("num", "cat3"), 3), (("num", "cat2", "cat3"), 2)):
            for terms in _term_sets(len(types), max_terms):
                for contrast in CONTRASTS:
                    n_sets += 1
                    j = n_sets % len(terms)
                    units.append((types, terms, seed, False, contrast, "none", False, ("first", "off"), None, None,
                                  (j, ("0.5", "2", "3")[n_sets % 3], "first")))
        with ctx.bounded(
            "rank-span-contrasts-literal-multipliers-svd",
            rule="every built-in contrast with one (rotating) term of the set multiplied by a literal 0.5 / 2 / 3; SVD ranks",
            exhaustive=False,
            bound="type tuples (2,3 levels), (numeric, 3 levels) with <=3 terms, (numeric, 2, 3 levels) with <=2 terms; every "
                  "permutation; intercept first/absent; all contrasts of the contrasts scope",
        ) as b:
            _scope(ctx, b, units, False, "contrasts-literal-multiplier")

        # ---- scope 4: 4 factors.  The reduced/full decision depends only on which factors are categorical, so the
        # categorical/numeric patterns are enumerated with 2-level factors (the mixed ones with every permutation);
        # level counts 1 and 3 get sampled orderings.
        units = []
        all_terms = [fs for k in range(1, 5) for fs in itertools.combinations(range(4), k)]
        for types, lim4 in ((("cat2", "cat2", "cat2", "num"), None), (("cat2", "cat2", "num", "num"), 8),
                            (("cat2", "cat2", "cat2", "cat2"), 4), (("cat2", "num", "num", "num"), 2)):
            for terms in _term_sets(4, 4):
                units.append((types, terms, seed, False, None, "none", False, ("first", "off"), lim4 if len(terms) == 4 else None))
        with ctx.bounded(
            "rank-span-4factors-kinds-svd",
            rule="4 factors, every pattern of categorical(2 levels)/numeric with >= 1 categorical; SVD ranks as above",
            exhaustive=False,
            bound="4 factors; pattern cccn: all term sets <=4 terms, every permutation; ccnn / cccc / cnnn: all term sets <=3 "
                  "terms with every permutation, 4-term sets with 8 / 4 / 2 seeded permutations; intercept first/absent",
        ) as b:
            _scope(ctx, b, units, False, "4factors-kinds")

        units = []
        for types in (("cat1", "cat2", "cat3", "num"), ("cat1", "cat3", "cat3", "cat3"), ("cat3", "cat2", "num", "num"),
                      ("num", "cat3", "cat1", "cat2")):
            for terms in _term_sets(4, 4):
                units.append((types, terms, seed, False, None, "none", False, ("first", "off"), 2 if len(terms) == 4 else None))
            for _ in range(40):
                terms = tuple(rng.sample(all_terms, 5))
                units.append((types, terms, seed, False, None, "none", False, ("first", "off"), 6))
        with ctx.bounded(
            "rank-span-4factors-levels-svd",
            rule="4 factors with 1/2/3-level categoricals; SVD ranks as above",
            exhaustive=False,
            bound="4 type tuples mixing 1, 2, 3 levels and numerics; all term sets <=3 terms with every permutation, all 4-term "
                  "sets with 2 seeded permutations each, 40 seeded 5-term sets per type tuple with 6 permutations each; "
                  "intercept first/absent",
        ) as b:
            _scope(ctx, b, units, False, "4factors-levels")

    if not ctx.explanation:  # the proofs module normally sets this; keeps the evidence schema-valid on its own
        ctx.explanation = ("bounded stand-in: model matrices with/without rank reduction for every ordered term list over <=3 "
                           "(thorough: 4) factors on fully crossed data; independence and equal span decided by exact rank over Q "
                           "(SVD for non-integer codings)")
    ctx.assume(
        "A-general-position: a fully crossed design with max(2, 2^#numeric) replicates per cell and pairwise distinct "
        "seeded integer values is 'in general position'; guarded by requiring every failure to repeat on a second data set",
        "A-order: term order is imposed with Formula([...], _ordering='none'); the intercept is the term '1'",
        f"A-float (thorough scopes with contrasts / 4 factors): rank = number of singular values > {SVD_RTOL} * sigma_max of "
        "the column-normalised matrix",
    )
