"""Shared helper of the bounded drivers C01 / C14 / C15 (formula parser).

Three independent pieces, none of which imports the parser under test:

(a) an exhaustive enumerator of *grammar trees* (``gen_formulas``) up to N binary operator
    nodes, leaf labelling by restricted-growth strings, decorations (unary signs / sign runs,
    additive sign runs, redundant parentheses, special atoms) and two printers
    (``to_tokens`` + ``render``: minimal parentheses per the documented precedence table;
    whitespace variants are produced from the token list);
(b) the reference semantics ``sem_formula`` written ONLY from docsite/docs/guides/grammar.md,
    formulae.ipynb and the C01 statement: ordered sets of terms (term = frozenset of factor
    keys), first-appearance order, documented expansions of ``: * / %in% ** ^``, ``~``/``|``
    structure, ``1 +`` textually prepended to every right-hand part (so that a leading sign run
    merges with it), ``0`` == ``-1``, sign runs collapse by parity, stable ordering by degree;
(c) the token alphabet / string enumerator used by C14.

Tree representation (plain tuples, picklable, hashable):
    ('atom', kind, text)            kind in name | qname | call | brace | lit | dot | zero
    ('un', run, child)              run: non-empty string over '+-' (a sign run, parity decides)
    ('bin', op, sym, left, right)   op in OPS; sym is the printed symbol (for + and - a sign run
                                    whose parity is op; otherwise sym == op)
    ('par', child)                  explicit (possibly redundant) parentheses
    ('formula', lhs_parts | None, rhs_parts, unary_tilde)   parts: tuple of expression trees
"""
from __future__ import annotations

import ast
import itertools
import random

# --------------------------------------------------------------------------------------
# grammar tables (from grammar.md: one block per precedence level, all binary operators
# left-associative)
# --------------------------------------------------------------------------------------
ADD_OPS = ("+", "-")
MUL_OPS = ("*", "/", "%in%")
POW_OPS = ("**", "^")
EXPR_OPS = ("+", "-", "*", "/", "%in%", ":", "**", "^")
LEVEL = {"+": 20, "-": 20, "*": 30, "/": 30, "%in%": 30, ":": 40, "**": 50, "^": 50}
UN_LEVEL = 20
ATOM_LEVEL = 100

RUNS1 = ("+", "-")
RUNS2 = tuple("".join(p) for p in itertools.product("+-", repeat=2))
RUNS3 = tuple("".join(p) for p in itertools.product("+-", repeat=3))


def runs_upto(n):
    out = []
    for k in range(1, n + 1):
        out.extend("".join(p) for p in itertools.product("+-", repeat=k))
    return tuple(out)


def parity(run):
    """A run of signs collapses to '-' iff it holds an odd number of '-'."""
    return "-" if run.count("-") % 2 else "+"


ONE = ("atom", "lit", "1")
ZERO = ("atom", "zero", "0")
DOT = ("atom", "dot", ".")


def name(x):
    return ("atom", "name", x)


# special atoms; (tree, variables used by the atom)
SPECIAL_ATOMS = {
    "qname": ("atom", "qname", "`x y`"),
    "qname_plain": ("atom", "qname", "`a`"),
    "call": ("atom", "call", "f(a)"),
    "call2": ("atom", "call", "g(a, b)"),
    "brace": ("atom", "brace", "{a + b}"),
    # quoted names whose TEXT contains the interaction operator: atomic factors that must never
    # be identified with the interaction of their pieces
    "qname_colon": ("atom", "qname", "`a:b`"),
    "qname_colon_rev": ("atom", "qname", "`b:a`"),
}

LETTERS = "abcdefgh"


# --------------------------------------------------------------------------------------
# enumeration
# --------------------------------------------------------------------------------------
SLOT = ("slot",)


def gen_expr(n, ops=EXPR_OPS, exps=(2,)):
    """All expression skeletons with exactly n binary operator nodes; leaves are SLOT.
    The right operand of ``**``/``^`` is an integer literal (grammar.md: 'the (integral) value
    of the right operand')."""
    if n == 0:
        yield SLOT
        return
    for op in ops:
        if op in POW_OPS:
            for left in gen_expr(n - 1, ops, exps):
                for e in exps:
                    yield ("bin", op, op, left, ("atom", "lit", str(e)))
        else:
            for i in range(n):
                for left in gen_expr(i, ops, exps):
                    for right in gen_expr(n - 1 - i, ops, exps):
                        yield ("bin", op, op, left, right)


def gen_parts(n, ops=EXPR_OPS, exps=(2,), bar=True):
    """Tuples of expressions separated by k-1 ``|`` using n binary nodes in total."""
    for k in range(1, (n + 1 if bar else 1) + 1):
        rest = n - (k - 1)
        if rest < 0:
            break
        for split in _compositions(rest, k):
            for parts in itertools.product(*[list(gen_expr(m, ops, exps)) for m in split]):
                yield tuple(parts)


def _compositions(total, k):
    if k == 1:
        yield (total,)
        return
    for first in range(total + 1):
        for rest in _compositions(total - first, k - 1):
            yield (first,) + rest


def gen_formula_skeletons(n, ops=EXPR_OPS, exps=(2,), tilde=True, bar=True, unary_tilde=True):
    """All formula skeletons with exactly n binary nodes (``~`` and ``|`` count)."""
    for parts in gen_parts(n, ops, exps, bar):
        yield ("formula", None, parts, False)
        if unary_tilde and tilde:
            yield ("formula", None, parts, True)
    if tilde and n >= 1:
        for i in range(n):
            lefts = list(gen_parts(i, ops, exps, bar))
            rights = list(gen_parts(n - 1 - i, ops, exps, bar))
            for l in lefts:
                for r in rights:
                    yield ("formula", l, r, False)


def count_slots(t):
    k = t[0]
    if t is SLOT or k == "slot":
        return 1
    if k == "atom":
        return 0
    if k == "un":
        return count_slots(t[2])
    if k == "par":
        return count_slots(t[1])
    if k == "bin":
        return count_slots(t[3]) + count_slots(t[4])
    if k == "formula":
        return sum(count_slots(p) for p in (t[1] or ())) + sum(count_slots(p) for p in t[2])
    raise ValueError(t)


def rgs(k, maxlabels=4):
    """Restricted-growth strings of length k (leaf labellings up to renaming)."""

    def rec(prefix, mx):
        if len(prefix) == k:
            yield tuple(prefix)
            return
        for v in range(min(mx + 1, maxlabels - 1) + 1):
            prefix.append(v)
            yield from rec(prefix, max(mx, v))
            prefix.pop()

    if k == 0:
        yield ()
        return
    yield from rec([], -1)


def fill_slots(t, atoms):
    """Replace the SLOTs of t, left to right, by the trees in the list `atoms` (consumed)."""
    it = iter(atoms)

    def rec(t):
        k = t[0]
        if k == "slot":
            return next(it)
        if k == "atom":
            return t
        if k == "un":
            return ("un", t[1], rec(t[2]))
        if k == "par":
            return ("par", rec(t[1]))
        if k == "bin":
            l = rec(t[3])
            r = rec(t[4])
            return ("bin", t[1], t[2], l, r)
        if k == "formula":
            l = None if t[1] is None else tuple(rec(p) for p in t[1])
            r = tuple(rec(p) for p in t[2])
            return ("formula", l, r, t[3])
        raise ValueError(t)

    return rec(t)


def gen_formulas(n, ops=EXPR_OPS, exps=(2,), maxlabels=4, **kw):
    """All labelled formulas with exactly n binary nodes, leaves labelled up to renaming."""
    for sk in gen_formula_skeletons(n, ops, exps, **kw):
        k = count_slots(sk)
        for lab in rgs(k, maxlabels):
            yield fill_slots(sk, [name(LETTERS[i]) for i in lab])


# ---- paths / decorations -------------------------------------------------------------
def expr_paths(t, prefix=()):
    """Paths to every expression node of a formula or expression (not into exponents)."""
    k = t[0]
    if k == "formula":
        if t[1] is not None:
            for i, p in enumerate(t[1]):
                yield from expr_paths(p, prefix + (("lhs", i),))
        for i, p in enumerate(t[2]):
            yield from expr_paths(p, prefix + (("rhs", i),))
        return
    yield prefix
    if k == "un":
        yield from expr_paths(t[2], prefix + (2,))
    elif k == "par":
        yield from expr_paths(t[1], prefix + (1,))
    elif k == "bin":
        yield from expr_paths(t[3], prefix + (3,))
        if t[1] not in POW_OPS:
            yield from expr_paths(t[4], prefix + (4,))


def get_at(t, path):
    for step in path:
        if isinstance(step, tuple):
            t = (t[1] if step[0] == "lhs" else t[2])[step[1]]
        else:
            t = t[step]
    return t


def replace_at(t, path, new):
    if not path:
        return new
    step, rest = path[0], path[1:]
    if isinstance(step, tuple):
        side = 1 if step[0] == "lhs" else 2
        parts = list(t[side])
        parts[step[1]] = replace_at(parts[step[1]], rest, new)
        out = list(t)
        out[side] = tuple(parts)
        return tuple(out)
    out = list(t)
    out[step] = replace_at(t[step], rest, new)
    return tuple(out)


def parent_kind(t, path):
    """What the node at `path` is an operand of: 'part' (root of a formula part), 'par', 'un',
    ('bin', op, side)."""
    if not path or (len(path) == 1 and isinstance(path[0], tuple)):
        return "part"
    parent = get_at(t, path[:-1])
    if parent[0] == "par":
        return "par"
    if parent[0] == "un":
        return "un"
    if parent[0] == "bin":
        return ("bin", parent[1], "L" if path[-1] == 3 else "R")
    raise ValueError(parent)


def additive_position(t, path):
    pk = parent_kind(t, path)
    return pk in ("part", "par", "un") or (isinstance(pk, tuple) and pk[1] in ADD_OPS)


def deco_unary(t, runs):
    for path in expr_paths(t):
        node = get_at(t, path)
        if node[0] == "un":
            continue  # `--a` is one run, not nested unaries
        for run in runs:
            yield replace_at(t, path, ("un", run, node))


def deco_addrun(t, runs):
    for path in expr_paths(t):
        node = get_at(t, path)
        if node[0] == "bin" and node[1] in ADD_OPS:
            for run in runs:
                if len(run) < 2:
                    continue
                yield replace_at(t, path, ("bin", parity(run), run, node[3], node[4]))


def deco_par(t):
    for path in expr_paths(t):
        node = get_at(t, path)
        yield replace_at(t, path, ("par", node))


def deco_atoms(t, with_dot=True, with_zero_one=True):
    """Replace one leaf by a special atom that the grammar allows at that position."""
    for path in expr_paths(t):
        node = get_at(t, path)
        if node[0] != "atom" or node[1] != "name":
            continue
        for key in ("qname", "qname_plain", "call", "call2", "brace", "qname_colon", "qname_colon_rev"):
            yield replace_at(t, path, SPECIAL_ATOMS[key])
        pk = parent_kind(t, path)
        if with_zero_one and additive_position(t, path):
            yield replace_at(t, path, ZERO)
            yield replace_at(t, path, ONE)
        if isinstance(pk, tuple) and pk[1] == ":":
            yield replace_at(t, path, ("atom", "lit", "2.5"))
        if with_dot and path and isinstance(path[0], tuple) and path[0][0] == "rhs":
            if lhs_is_plain(t):
                yield replace_at(t, path, DOT)


def lhs_is_plain(t):
    """'.' is only generated when the left-hand side holds plain (quoted) names, so that
    'variables used on the left-hand side' is unambiguous."""
    if t[1] is None:
        return True
    for p in t[1]:
        for a in atoms_of(p):
            if a[1] not in ("name", "qname"):
                return False
    return True


def atoms_of(t):
    k = t[0]
    if k == "atom":
        yield t
    elif k == "un":
        yield from atoms_of(t[2])
    elif k == "par":
        yield from atoms_of(t[1])
    elif k == "bin":
        yield from atoms_of(t[3])
        yield from atoms_of(t[4])
    elif k == "formula":
        for p in t[1] or ():
            yield from atoms_of(p)
        for p in t[2]:
            yield from atoms_of(p)


def nodes_of(t):
    k = t[0]
    if k == "formula":
        for p in t[1] or ():
            yield from nodes_of(p)
        for p in t[2]:
            yield from nodes_of(p)
        return
    yield t
    if k == "un":
        yield from nodes_of(t[2])
    elif k == "par":
        yield from nodes_of(t[1])
    elif k == "bin":
        yield from nodes_of(t[3])
        yield from nodes_of(t[4])


def n_binary(t):
    n = sum(1 for x in nodes_of(t) if x[0] == "bin")
    if t[0] == "formula":
        n += (0 if t[1] is None else len(t[1]) - 1 + 1) + len(t[2]) - 1
    return n


def has_dot(t):
    return any(a[1] == "dot" for a in atoms_of(t))


def random_formula(rng, n_ops, p_unary=0.15, p_par=0.1, p_special=0.15, letters="abcd", structural=True):
    """A random formula with about n_ops binary nodes (beyond the exhaustive scope)."""

    def expr(n, pos_additive):
        if n == 0:
            r = rng.random()
            if r < p_special:
                choices = ["qname", "call", "call2", "brace", "qname_colon", "qname_colon_rev"]
                a = SPECIAL_ATOMS[rng.choice(choices)]
            elif r < p_special + 0.06 and pos_additive:
                a = rng.choice([ZERO, ONE])
            else:
                a = name(rng.choice(letters))
            node = a
        else:
            op = rng.choice(EXPR_OPS)
            if op in POW_OPS:
                left = expr(n - 1, False)
                node = ("bin", op, op, left, ("atom", "lit", str(rng.choice([1, 2, 2, 3]))))
            else:
                i = rng.randrange(n)
                add = op in ADD_OPS
                left = expr(i, add)
                right = expr(n - 1 - i, add)
                sym = op
                if add and rng.random() < 0.25:
                    while True:
                        sym = "".join(rng.choice("+-") for _ in range(rng.choice([2, 3])))
                        if parity(sym) == op:
                            break
                node = ("bin", op, sym, left, right)
        if rng.random() < p_par:
            node = ("par", node)
            pos_additive = True
        if rng.random() < p_unary and node[0] != "un":
            run = "".join(rng.choice("+-") for _ in range(rng.choice([1, 1, 2, 3])))
            node = ("un", run, node)
        return node

    def parts(n):
        k = 1
        if structural and n >= 1 and rng.random() < 0.25:
            k = 2 if (n < 2 or rng.random() < 0.7) else 3
        n -= k - 1
        cuts = sorted(rng.randrange(n + 1) for _ in range(k - 1))
        sizes = [b - a for a, b in zip([0] + cuts, cuts + [n])]
        return tuple(expr(m, True) for m in sizes)

    if structural and n_ops >= 1 and rng.random() < 0.5:
        i = rng.randrange(n_ops)
        f = ("formula", parts(i), parts(n_ops - 1 - i), False)
    else:
        f = ("formula", None, parts(n_ops), structural and rng.random() < 0.1)
    return sanitize_tree(f)


def sanitize_tree(t):
    """Move ZERO/ONE atoms that ended up in positions where the documentation does not define
    them (operand of : * / %in% **) out of the way by replacing them with a name."""
    for path in list(expr_paths(t)):
        node = get_at(t, path)
        if node in (ZERO, ONE) and not additive_position(t, path):
            t = replace_at(t, path, name("a"))
    return t


# --------------------------------------------------------------------------------------
# printing
# --------------------------------------------------------------------------------------
def level_of(t):
    k = t[0]
    if k in ("atom", "par", "slot", "unbare"):
        return ATOM_LEVEL
    if k == "un":
        return UN_LEVEL
    return LEVEL[t[1]]


def to_tokens(t, min_level=0, strict=False, out=None):
    """Token list with minimal parentheses per the documented precedence table.
    Every sign of a run is its own token (whitespace may be put between them)."""
    top = out is None
    if out is None:
        out = []
    k = t[0]
    if k == "formula":
        if t[1] is not None:
            for i, p in enumerate(t[1]):
                if i:
                    out.append("|")
                to_tokens(p, 0, False, out)
            out.append("~")
        elif t[3]:
            out.append("~")
        for i, p in enumerate(t[2]):
            if i:
                out.append("|")
            to_tokens(p, 0, False, out)
        return out
    if k == "unbare":
        # negative space only: a sign run written directly after a non-additive operator
        out.extend(t[1])
        return to_tokens(t[2], min_level, strict, out)
    lv = level_of(t)
    need = lv < min_level or (strict and lv <= min_level)
    if need:
        out.append("(")
    if k == "atom":
        out.append(t[2])
    elif k == "par":
        out.append("(")
        to_tokens(t[1], 0, False, out)
        out.append(")")
    elif k == "un":
        out.extend(t[1])
        # the operand of a prefix sign: anything of the additive level needs parentheses
        to_tokens(t[2], UN_LEVEL, True, out)
    elif k == "bin":
        to_tokens(t[3], lv, False, out)  # left-associative: left operand of same level: bare
        if t[1] in ADD_OPS:
            out.extend(t[2])
        else:
            out.append(t[2])
        to_tokens(t[4], lv, True, out)
    else:
        raise ValueError(t)
    if need:
        out.append(")")
    return out if top else out


def render(tokens, style="tight", rng=None):
    if style == "tight":
        return "".join(tokens)
    if style == "spaced":
        return " ".join(tokens)
    if style == "wide":
        return "  " + " \t".join(tokens) + " \n"
    if style == "random":
        ws = ["", "", " ", "  ", "\t", "\n", " \t "]
        return rng.choice(ws) + "".join(tok + rng.choice(ws) for tok in tokens)
    raise ValueError(style)


def show(t):
    return render(to_tokens(t))


# --------------------------------------------------------------------------------------
# reference semantics (documentation only)
# --------------------------------------------------------------------------------------
class Unspecified(Exception):
    """The documentation does not say what this denotes (no verdict)."""


class OutsideGrammar(Exception):
    """The documentation excludes this (must be rejected)."""


class NeedsContext(Exception):
    """`.` without an available-variable list (footnote 9: requires additional context)."""


_AST_CACHE = {}
_DUMP_TEXT = {}


def py_key(code):
    """Python factors are compared up to formatting (C15): key = the AST."""
    k = _AST_CACHE.get(code)
    if k is None:
        try:
            tree = ast.parse(code.strip(), mode="eval")
            k = ("py", ast.dump(tree))
            _DUMP_TEXT.setdefault(k[1], ast.unparse(tree))
        except SyntaxError:
            k = ("py-raw", code)
        _AST_CACHE[code] = k
    return k


def atom_key(a):
    kind, text = a[1], a[2]
    if kind == "name":
        return ("name", text)
    if kind == "qname":
        return ("name", text[1:-1])
    if kind == "call":
        return py_key(text)
    if kind == "brace":
        return py_key(text[1:-1])
    if kind == "lit":
        return ("lit", text)
    raise ValueError(a)


def atom_vars(a):
    kind, text = a[1], a[2]
    if kind == "name":
        return [text]
    if kind == "qname":
        return [text[1:-1]]
    if kind in ("call", "brace"):
        src = text if kind == "call" else text[1:-1]
        return [n.id for n in ast.walk(ast.parse(src, mode="eval")) if isinstance(n, ast.Name)]
    return []


def _dedupe(terms):
    return list(dict.fromkeys(terms))


def _union(a, b):
    return _dedupe(list(a) + list(b))


def _diff(a, b):
    sb = set(b)
    return [t for t in a if t not in sb]


def _prod(a, b):
    return _dedupe([s | t for s in a for t in b])


def _star(a, b):
    # a * b  ==  a + b + a:b
    return _union(_union(a, b), _prod(a, b))


def _nested(parents, nested):
    # a / b == a + a:b ; (a + b) / c == a + b + a:b:c ; a / (b + c) == a + a:b + a:c
    if not parents:
        raise Unspecified("nesting under an empty set of parents")
    common = frozenset().union(*parents)
    return _union(parents, [common | t for t in nested])


def _int_value(t):
    if t[0] == "atom" and t[1] == "lit" and t[2].isdigit():
        return int(t[2])
    if t[0] == "atom" and t[1] == "zero":
        return 0
    if t[0] == "par":
        return _int_value(t[1])
    if t[0] == "un" and parity(t[1]) == "+":
        return _int_value(t[2])
    raise OutsideGrammar("the right operand of ** must be a positive integer")


def _power(a, right, mode):
    n = _int_value(right)
    if n < 1:
        raise OutsideGrammar("the right operand of ** must be a positive integer")
    if mode == "product":
        return _dedupe([frozenset().union(*tup) for tup in itertools.product(a, repeat=n)])
    out = list(a)
    for _ in range(n - 1):
        out = _star(out, a)
    return out


def desugar(t, where="part"):
    """`0` is `-1`, textually: the sign joins the run to its left, if any."""
    k = t[0]
    if k == "atom":
        if t[1] == "zero":
            if where in ("part", "par", "addL"):
                return ("un", "-", ONE)
            raise Unspecified("0 outside an additive position")
        return t
    if k == "par":
        return ("par", desugar(t[1], "par"))
    if k == "un":
        if t[2] == ZERO:
            return ("un", t[1] + "-", ONE)
        return ("un", t[1], desugar(t[2], "un"))
    if k == "bin":
        op, sym, l, r = t[1], t[2], t[3], t[4]
        if op in ADD_OPS:
            l2 = desugar(l, "addL")
            if r == ZERO:
                sym2 = sym + "-"
                return ("bin", parity(sym2), sym2, l2, ONE)
            return ("bin", op, sym, l2, desugar(r, "addR"))
        if op in POW_OPS:
            return ("bin", op, sym, desugar(l, "other"), r)
        return ("bin", op, sym, desugar(l, "other"), desugar(r, "other"))
    raise ValueError(t)


def prepend_one(e):
    """The tree denoted by the text `1 + <e>` (grammar.md: "'1 +' is implicitly prepended to the
    right hand side"); a leading sign run of <e> joins the inserted '+'."""
    if e[0] == "un":
        sym = "+" + e[1]
        return ("bin", parity(sym), sym, ONE, e[2])
    if e[0] == "bin" and e[1] in ADD_OPS:
        return ("bin", e[1], e[2], prepend_one(e[3]), e[4])
    return ("bin", "+", "+", ONE, e)


class Env:
    def __init__(self, avail=None, lhs_used=(), powmode="product"):
        self.avail = avail
        self.lhs_used = set(lhs_used)
        self.powmode = powmode


def sem_expr(t, env):
    k = t[0]
    if k == "atom":
        if t[1] == "dot":
            if env.avail is None:
                raise NeedsContext()
            return [frozenset({("name", v)}) for v in dict.fromkeys(env.avail) if v not in env.lhs_used]
        if t[1] == "zero":
            raise AssertionError("desugar first")
        return [frozenset({atom_key(t)})]
    if k == "par":
        return sem_expr(t[1], env)
    if k == "un":
        inner = sem_expr(t[2], env)
        return inner if parity(t[1]) == "+" else []
    if k == "bin":
        op = t[1]
        if op in POW_OPS:
            return _power(sem_expr(t[3], env), t[4], env.powmode)
        a = sem_expr(t[3], env)
        b = sem_expr(t[4], env)
        if op in ADD_OPS:
            assert parity(t[2]) == op, t
            return _union(a, b) if op == "+" else _diff(a, b)
        if op == ":":
            return _prod(a, b)
        if op == "*":
            return _star(a, b)
        if op == "/":
            return _nested(a, b)
        if op == "%in%":
            return _nested(b, a)
    raise ValueError(t)


def sem_part(e, intercept, env):
    e = desugar(e, "part")
    if intercept:
        e = prepend_one(e)
    return sem_expr(e, env)


def sem_formula(f, include_intercept, avail=None, powmode="product"):
    """Pre-sort denotation: {'root': P} or {'lhs': P, 'rhs': P}; P = list of terms, or a tuple
    of lists when `|` is present. Terms are frozensets of factor keys."""
    assert f[0] == "formula"
    lhs, rhs = f[1], f[2]
    used = []
    if lhs is not None:
        for p in lhs:
            for a in atoms_of(p):
                used.extend(atom_vars(a))
    env = Env(avail, used, powmode)

    def side(parts, intercept):
        out = tuple(sem_part(p, intercept, env) for p in parts)
        return out[0] if len(out) == 1 else out

    if lhs is None:
        return {"root": side(rhs, include_intercept)}
    return {"lhs": side(lhs, False), "rhs": side(rhs, include_intercept)}


def degree(term, literals_count=False):
    if literals_count:
        return len(term) - (1 if term == frozenset({("lit", "1")}) else 0)
    return sum(1 for k in term if k[0] != "lit")


def sort_struct(struct, literals_count=False):
    def sp(p):
        if isinstance(p, tuple):
            return tuple(sp(x) for x in p)
        return sorted(p, key=lambda t: degree(t, literals_count))

    return {k: sp(v) for k, v in struct.items()}


def drop_ones(struct):
    """Alternative normal form in which a literal 1 inside a product is dropped (1:a read as a)."""
    one = ("lit", "1")

    def st(t):
        return frozenset(k for k in t if k != one) if len(t) > 1 and one in t else t

    def sp(p):
        if isinstance(p, tuple):
            return tuple(sp(x) for x in p)
        return _dedupe([st(t) if st(t) else t for t in p])

    return {k: sp(v) for k, v in struct.items()}


def struct_shape(struct):
    return {k: (len(v) if isinstance(v, tuple) else 0) for k, v in struct.items()}


def as_sets(struct):
    def sp(p):
        if isinstance(p, tuple):
            return tuple(sp(x) for x in p)
        return frozenset(p)

    return {k: sp(v) for k, v in struct.items()}


def flat_parts(struct):
    for k, v in struct.items():
        if isinstance(v, tuple):
            for i, p in enumerate(v):
                yield (k, i), p
        else:
            yield (k, None), v


def literal_flags(struct):
    """Situations around numeric literals that the documentation leaves open (only `2.5:a`
    style scaling of a term is documented): a term made of literals only (other than the
    intercept) and the same non-literal product with different scalings in one part."""
    flags = set()
    one = frozenset({("lit", "1")})
    for _, part in flat_parts(struct):
        seen = {}
        for t in part:
            lits = frozenset(k for k in t if k[0] == "lit")
            rest = t - lits
            if not rest and t != one:
                flags.add("literal-only-term")
            if len([k for k in lits]) > 1:
                flags.add("two-literals")
            if rest:
                if rest in seen and seen[rest] != lits:
                    flags.add("rescaled-duplicate")
                seen.setdefault(rest, lits)
            if ("lit", "1") in t and len(t) > 1:
                flags.add("one-in-product")
    return flags


def key_text(k):
    if k[0] == "py":
        return _DUMP_TEXT[k[1]]
    return k[1]


def plain(struct):
    """JSON-able form used in witnesses: terms as sorted lists of factor texts."""

    def sp(p):
        if isinstance(p, tuple):
            return [sp(x) for x in p]
        return [sorted(key_text(k) for k in t) for t in p]

    return {k: sp(v) for k, v in struct.items()}


# --------------------------------------------------------------------------------------
# an independent precedence-climbing reader for the *negative space* (sign runs after
# non-additive operators): prefix signs allowed at every operand position
# --------------------------------------------------------------------------------------
def read_loose(tokens):
    """Parse an expression token list (atoms are single tokens; sign runs are given as single
    '+'/'-' tokens each) with prefix sign runs allowed wherever an operand is expected; a prefix
    sign has the documented (additive) precedence, i.e. it extends over every following
    operator that binds tighter. Returns an expression tree or raises OutsideGrammar."""
    pos = [0]

    def peek():
        return tokens[pos[0]] if pos[0] < len(tokens) else None

    def take():
        tok = tokens[pos[0]]
        pos[0] += 1
        return tok

    def operand(min_level):
        tok = peek()
        if tok is None:
            raise OutsideGrammar("operand expected")
        if tok in ("+", "-"):
            run = ""
            while peek() in ("+", "-"):
                run += take()
            child = expression(UN_LEVEL + 1)
            return ("un", run, child)
        if tok == "(":
            take()
            inner = expression(0)
            if peek() != ")":
                raise OutsideGrammar("unbalanced")
            take()
            return ("par", inner)
        if tok in LEVEL or tok in (")", "~", "|"):
            raise OutsideGrammar("operand expected")
        take()
        return atom_from_text(tok)

    def expression(min_level):
        left = operand(min_level)
        while True:
            tok = peek()
            if tok is None or tok == ")" or tok not in LEVEL:
                break
            lv = LEVEL[tok]
            if lv < min_level:
                break
            if tok in ("+", "-"):
                run = ""
                while peek() in ("+", "-"):
                    run += take()
                right = expression(lv + 1)
                left = ("bin", parity(run), run, left, right)
            else:
                take()
                right = expression(lv + 1)
                left = ("bin", tok, tok, left, right)
        return left

    tree = expression(0)
    if pos[0] != len(tokens):
        raise OutsideGrammar("trailing tokens")
    return tree


def atom_from_text(tok):
    if tok == "0":
        return ZERO
    if tok == ".":
        return DOT
    if tok[0] == "`":
        return ("atom", "qname", tok)
    if tok[0] == "{":
        return ("atom", "brace", tok)
    if tok[0].isdigit():
        return ("atom", "lit", tok)
    if "(" in tok:
        return ("atom", "call", tok)
    return ("atom", "name", tok)


# --------------------------------------------------------------------------------------
# (c) C14 token alphabet
# --------------------------------------------------------------------------------------
TOKEN_ALPHABET = (
    "a", "b", "é",
    "(", ")", "[", "]",
    "+", "-", "*", "/", ":", "**", "^", "%in%", "~", "|", ".",
    "0", "1", "2.5",
    "`a b`", "{a+b}", "f(a)", "{}", "f()", "f(``)", '"s"',
    "`", "{", "}", '"', "'", "\\", "%", " ",
)
# reduced alphabet used to reach one more token of length within the quick budget
TOKEN_ALPHABET_CORE = (
    "a", "(", ")", "[", "]", "+", "-", "*", "/", ":", "**", "%in%", "~", "|", ".", "0", "2",
    "{", "}", "`", '"', "f(",
)


def token_strings(alphabet, length):
    for tup in itertools.product(alphabet, repeat=length):
        yield "".join(tup)


def token_strings_shard(alphabet, length, shard, nshards):
    """The strings of exactly `length` tokens whose index = shard (mod nshards)."""
    n = len(alphabet)
    total = n**length
    for idx in range(shard, total, nshards):
        x = idx
        toks = []
        for _ in range(length):
            x, r = divmod(x, n)
            toks.append(alphabet[r])
        yield "".join(reversed(toks))


CHAR_POOL = "ab1 0.+-*/:^~|()[]{}`'\"\\%in,_é\t\n2"


def random_char_strings(seed, count, maxlen=12):
    rng = random.Random(seed)
    for _ in range(count):
        n = rng.randint(1, maxlen)
        yield "".join(rng.choice(CHAR_POOL) for _ in range(n))
