"""C19 bounded stand-in: container laws of Structured, LayeredMapping and SimpleFormula.

Every driver keeps a plain-Python model (nested dict/list ADT, dict stack, list) next to the REAL
container, applies the same operations to both and compares observable behaviour.
"""
from __future__ import annotations

from vf.bounded import _meta_guard as _g  # noqa: E402

import copy
import functools
import itertools
import random

MAX_REPORT = 5


def _fail(b, counts, clause, cls, witness, detail):
    k = (clause, cls)
    counts[k] = counts.get(k, 0) + 1
    if counts[k] <= MAX_REPORT:
        b.fail(clause, dict(witness, cls=cls), detail)


# =====================================================================================
# 1. Structured
# =====================================================================================
# model node: ("L", value) | ("T", [node, ...]) | ("S", {key: node})   (top level is always "S")
KEYS = ["root", "a", "b", "c"]


def gen_node(rng, depth, counter, allow_tuple=True):
    r = rng.random()
    if depth <= 0 or r < 0.35:
        counter[0] += 1
        return ("L", [counter[0]])
    if allow_tuple and r < 0.65:
        return ("T", [gen_node(rng, depth - 1, counter) for _ in range(rng.randint(1, 3))])
    return gen_struct(rng, depth - 1, counter)


def gen_struct(rng, depth, counter, allow_tuple=True):
    keys = rng.sample(KEYS, rng.randint(1, 3))
    return ("S", {k: gen_node(rng, depth, counter, allow_tuple) for k in keys})


def src(node):
    """Python source that rebuilds the real object for a model node."""
    if node[0] == "L":
        return repr(node[1])
    if node[0] == "T":
        return "(" + ", ".join(src(c) for c in node[1]) + ("," if len(node[1]) == 1 else "") + ")"
    return "Structured(" + ", ".join(f"{k}={src(v)}" for k, v in node[1].items()) + ")"


def to_real(node):
    from formulaic.utils.structured import Structured

    if node[0] == "L":
        return node[1]
    if node[0] == "T":
        return tuple(to_real(c) for c in node[1])
    return Structured(**{k: to_real(v) for k, v in node[1].items()})


def from_real(obj, leaf=lambda x: x):
    from formulaic.utils.structured import Structured

    if isinstance(obj, Structured):
        return ("S", {k: from_real(v, leaf) for k, v in obj._structure.items()})
    if isinstance(obj, tuple):
        return ("T", [from_real(v, leaf) for v in obj])
    return ("L", leaf(obj))


def leaves(node):
    if node[0] == "L":
        return [node[1]]
    kids = node[1] if node[0] == "T" else node[1].values()
    return [x for c in kids for x in leaves(c)]


def shape(node):
    if node[0] == "L":
        return "L"
    if node[0] == "T":
        return ("T", [shape(c) for c in node[1]])
    return ("S", {k: shape(v) for k, v in node[1].items()})


def depth_of(node):
    if node[0] == "L":
        return 0
    kids = node[1] if node[0] == "T" else node[1].values()
    return 1 + max((depth_of(c) for c in kids), default=0)


def has_tuple_in_tuple(node):
    if node[0] == "L":
        return False
    if node[0] == "T":
        return any(c[0] == "T" or has_tuple_in_tuple(c) for c in node[1])
    return any(has_tuple_in_tuple(c) for c in node[1].values())


def same_ids(xs, ys):
    return len(xs) == len(ys) and all(x is y for x, y in zip(xs, ys))


def model_merge(nodes):
    """Dictionary merge of structures as documented for Structured._merge (default merger on list leaves)."""
    if all(n[0] == "L" for n in nodes):
        return ("L", [x for n in nodes for x in n[1]])
    assert all(n[0] != "T" for n in nodes), "driver: merge operands are generated without colliding tuples"
    up = [n if n[0] == "S" else ("S", {"root": n}) for n in nodes]
    out = {}
    for n in up:
        for k, v in n[1].items():
            out.setdefault(k, []).append(v)
    return ("S", {k: (model_merge(vs) if len(vs) > 1 else vs[0]) for k, vs in out.items()})


def gen_partner(rng, node, depth, counter):
    """A structure that can be merged with `node` without colliding tuples (tuples only under new keys)."""
    assert node[0] == "S"
    out = {}
    for k, v in node[1].items():
        r = rng.random()
        if r < 0.3:
            continue
        if v[0] == "T":
            continue  # never collide with a tuple
        if v[0] == "S" and r < 0.75:
            out[k] = gen_partner(rng, v, depth - 1, counter)
        elif v[0] == "L" and r < 0.8:
            counter[0] += 1
            out[k] = ("L", [counter[0]])
        elif v[0] == "L" and depth > 0:
            # leaf on the left, structure on the right: the leaf is upcast to {root: leaf}
            sub = gen_struct(rng, 0, counter, allow_tuple=False)
            out[k] = sub
        elif v[0] == "S":
            root = v[1].get("root")
            if root is None or root[0] == "L":
                counter[0] += 1
                out[k] = ("L", [counter[0]])
    for k in KEYS:
        if k not in node[1] and rng.random() < 0.35:
            out[k] = gen_node(rng, max(depth - 1, 0), counter)
    if not out:
        counter[0] += 1
        out[rng.choice([k for k in KEYS if k not in node[1]] or ["a"])] = ("L", [counter[0]])
        k0 = next(iter(out))
        if k0 in node[1] and node[1][k0][0] != "L":
            out = {}
            counter[0] += 1
            out["zz"] = ("L", [counter[0]])
    return ("S", out)


STRUCT_HEAD = "from formulaic.utils.structured import Structured\n"
WALK_SRC = '''def walk(o):
    if isinstance(o, Structured):
        return [x for v in o._structure.values() for x in walk(v)]
    if isinstance(o, tuple):
        return [x for v in o for x in walk(v)]
    return [o]
def model(o):
    if isinstance(o, Structured):
        return {k: model(v) for k, v in o._structure.items()}
    if isinstance(o, tuple):
        return tuple(model(v) for v in o)
    return ('leaf', o)
'''


def check_structured(b, counts, rng, m):
    from formulaic.utils.structured import Structured

    s = to_real(m)
    msrc = src(m)
    tt = has_tuple_in_tuple(m)
    tag = "tuple-in-tuple" if tt else "plain"
    b.case(("structured", msrc), depth_of(m) >= 2, sample={"structure": msrc})
    base = {"structure": msrc}

    # construction keeps the written shape (precondition of everything else)
    if shape(from_real(s)) != shape(m):
        _fail(b, counts, "C19.structured.construct.shape", tag, dict(base, code=STRUCT_HEAD + WALK_SRC + f"s = {msrc}\nassert model(s) == model({msrc})\n"), "constructor changed the shape")
        return
    # leaf order = depth-first walk of the REAL container's own key order (the constructor moves `root`)
    m = from_real(s)
    want_leaves = leaves(m)

    # _map: same shape, func applied to every leaf once, in leaf (depth-first) order
    for arity in (1, 2):
        visited = []
        if arity == 1:
            fn = lambda x: (visited.append(x), ["m", id(x)])[1]  # noqa: E731
        else:
            fn = lambda x, ctx: (visited.append(x), ["m", id(x)])[1]  # noqa: E731
        code = (STRUCT_HEAD + WALK_SRC + f"s = {msrc}\nseen = []\n"
                + ("f = lambda x: (seen.append(x), ['m', x])[1]\n" if arity == 1 else "f = lambda x, ctx: (seen.append(x), ['m', x])[1]\n")
                + "r = s._map(f)\nwant = walk(s)\n"
                + "assert seen == want, ('visit order/count', seen, want)\n"
                + "assert walk(r) == [['m', x] for x in want], 'mapped leaves'\n"
                + "strip = lambda t: {k: strip(v) for k, v in t.items()} if isinstance(t, dict) else tuple(strip(v) for v in t) if isinstance(t, tuple) and t[:1] != ('leaf',) else None\n"
                + "assert strip(model(r)) == strip(model(s)), 'shape'\n")
        w = dict(base, code=code, arity=arity)
        try:
            r = s._map(fn)
        except Exception as e:  # outcome of the code under test
            _fail(b, counts, "C19.structured.map.shape", f"raises-{type(e).__name__}", w, f"{type(e).__name__}: {e}")
            continue
        rm = from_real(r)
        if shape(rm) != shape(m):
            _fail(b, counts, "C19.structured.map.shape", tag, w, f"shape {shape(rm)} != {shape(m)}")
        if not same_ids(visited, want_leaves):
            cls = "count" if len(visited) != len(want_leaves) else "order"
            _fail(b, counts, "C19.structured.map.visits", f"{cls}:{tag}", w, f"visited {visited}, leaves {want_leaves}")
        elif leaves(rm) != [["m", id(x)] for x in want_leaves]:
            _fail(b, counts, "C19.structured.map.values", tag, w, "result leaves are not func(leaf) in place")

    # _flatten yields exactly the leaves, in the same order _map visits them
    code = STRUCT_HEAD + WALK_SRC + f"s = {msrc}\nseen = []\ns._map(lambda x: seen.append(x))\nflat = list(s._flatten())\nassert flat == seen == walk(s), (flat, seen)\n"
    w = dict(base, code=code)
    try:
        flat = list(s._flatten())
        if not same_ids(flat, want_leaves):
            _fail(b, counts, "C19.structured.flatten.leaves", tag, w, f"_flatten -> {flat}; leaves -> {want_leaves}")
    except Exception as e:  # outcome of the code under test
        _fail(b, counts, "C19.structured.flatten.leaves", f"raises-{type(e).__name__}", w, f"{type(e).__name__}: {e}")

    # _simplify: leaf-preserving and idempotent, for every documented option combination
    for opts in ({}, {"unwrap": False}, {"recurse": False}, {"recurse": False, "unwrap": False}, {"unwrap": False, "inplace": True}):
        osrc = ", ".join(f"{k}={v}" for k, v in opts.items())
        code = (STRUCT_HEAD + WALK_SRC + f"s = {msrc}\nbefore = walk(s)\nr = s._simplify({osrc})\n"
                + "assert walk(r) == before, ('leaves', walk(r), before)\n"
                + f"r2 = r._simplify({osrc}) if isinstance(r, Structured) else r\nassert model(r2) == model(r), 'idempotent'\n")
        w = dict(base, code=code, options=opts)
        s1 = to_real(m)
        try:
            r = s1._simplify(**opts)
            got = leaves(from_real(r))
            if not same_ids(got, want_leaves) and got != want_leaves:
                _fail(b, counts, "C19.structured.simplify.leaves", tag, w, f"leaves {got} != {want_leaves}")
            if isinstance(r, Structured):
                r_model = copy.deepcopy(from_real(r, leaf=id))
                r2 = r._simplify(**opts)
                if from_real(r2, leaf=id) != r_model:
                    _fail(b, counts, "C19.structured.simplify.idempotent", tag, w, f"{from_real(r2)} != {r_model}")
        except Exception as e:  # outcome of the code under test
            _fail(b, counts, "C19.structured.simplify.leaves", f"raises-{type(e).__name__}", w, f"{type(e).__name__}: {e}")

    # _update: dictionary update of the top-level structure, receiver untouched
    counter = [10_000]
    upd = {k: gen_node(rng, 1, counter) for k in rng.sample(KEYS, rng.randint(1, 2))}
    usrc = ", ".join(f"{k}={src(v)}" for k, v in upd.items())
    code = (STRUCT_HEAD + WALK_SRC + f"s = {msrc}\nbefore = model(s)\nr = s._update({usrc})\n"
            + f"want = dict(before); want.update(model(Structured({usrc})))\nassert model(r) == want, (model(r), want)\nassert model(s) == before\n")
    w = dict(base, code=code, update=usrc)
    try:
        before = from_real(s, leaf=id)
        r = s._update(**{k: to_real(v) for k, v in upd.items()})
        want = dict(m[1])
        want.update(upd)
        if from_real(r) != ("S", want):
            _fail(b, counts, "C19.structured.update.merge", tag, w, f"{from_real(r)} != {('S', want)}")
        if from_real(s, leaf=id) != before:
            _fail(b, counts, "C19.structured.update.receiver", tag, w, "receiver changed")
    except Exception as e:  # outcome of the code under test
        _fail(b, counts, "C19.structured.update.merge", f"raises-{type(e).__name__}", w, f"{type(e).__name__}: {e}")

    # _merge: recursive dictionary merge (list leaves concatenated by the default merger)
    counter = [20_000]
    partners, acc = [m], m
    for _ in range(rng.randint(1, 2)):
        partners.append(gen_partner(rng, acc, 3, counter))  # aligned with everything merged so far
        acc = model_merge([acc, partners[-1]])
    want = model_merge(partners)
    assert want == acc, "driver: n-ary and pairwise model merges agree"
    psrc = ", ".join(src(p) for p in partners)
    code = (STRUCT_HEAD + WALK_SRC + f"r = Structured._merge({psrc})\n"
            + f"want = {want!r}\n"
            + "def conv(t):\n    return {k: conv(v) for k, v in t[1].items()} if t[0] == 'S' else tuple(conv(v) for v in t[1]) if t[0] == 'T' else ('leaf', t[1])\n"
            + "assert model(r) == conv(want), (model(r), conv(want))\n")
    w = dict(base, code=code, merge=psrc)
    b.case(("structured-merge", psrc), True)
    try:
        r = Structured._merge(*[to_real(p) for p in partners])
        if from_real(r) != want:
            _fail(b, counts, "C19.structured.merge.model", "tuple" if "(" in psrc.replace("Structured(", "") else "keyed", w, f"{from_real(r)}\n!= {want}")
    except Exception as e:  # outcome of the code under test
        _fail(b, counts, "C19.structured.merge.model", f"raises-{type(e).__name__}", w, f"{type(e).__name__}: {e}")


# =====================================================================================
# 2. LayeredMapping
# =====================================================================================
LKEYS = ["x", "y", "z", "w"]


class MLM:
    """Model: private dict on top of an ordered list of layers (dict or MLM)."""

    def __init__(self, layers, name=None):
        self.private = {}
        self.layers = list(layers)
        self.name = name

    def view(self):
        out = {}
        for layer in reversed(self.layers):
            out.update(layer.view() if isinstance(layer, MLM) else layer)
        out.update(self.private)
        return out


def build_stack(rng, counter):
    """Returns (source lines, real mapping, model, supplied dict layers as [(real dict, snapshot)])."""
    from formulaic.utils.layered_mapping import LayeredMapping

    lines, supplied = [], []
    real_layers, model_layers = [], []
    n = rng.randint(0, 4)
    names = iter(["data", "context", "transforms", "extra"])
    exprs = []
    for i in range(n):
        r = rng.random()
        if r < 0.1:
            real_layers.append(None)
            exprs.append("None")
            continue
        d = {}
        for k in rng.sample(LKEYS, rng.randint(0, 3)):
            counter[0] += 1
            d[k] = counter[0]
        lines.append(f"d{i} = {d!r}")
        # a supplied layer may be any Mapping, including ones that answer (or even insert) for absent keys on lookup:
        # membership, not lookup, defines which keys a layer holds
        if 0.45 <= r < 0.6:
            import collections

            if r < 0.53:
                d = collections.defaultdict(int, d)
                lines[-1] = f"d{i} = __import__('collections').defaultdict(int, {dict(d)!r})"
            else:
                d = collections.Counter(d)
                lines[-1] = f"d{i} = __import__('collections').Counter({dict(d)!r})"
        supplied.append((d, dict(d), f"d{i}"))
        if r < 0.45:
            nm = next(names) if rng.random() < 0.8 else None
            real_layers.append(LayeredMapping(d, name=nm))
            model_layers.append(MLM([d], name=nm))
            exprs.append(f"LayeredMapping(d{i}, name={nm!r})")
        else:
            real_layers.append(d)
            model_layers.append(d)
            exprs.append(f"d{i}")
    lines.append(f"m = LayeredMapping({', '.join(exprs)})")
    return lines, LayeredMapping(*real_layers), MLM(model_layers), supplied


LM_OPS = ["set", "set", "del", "get", "len", "iter", "contains", "pop", "setdefault", "update", "with_layers", "gwln", "delpriv", "owner"]

LM_CHECK_SRC = '''def check(m, view):
    keys = list(m)
    assert len(keys) == len(set(keys)), ('duplicate keys in iteration', keys)
    assert set(keys) == set(view), ('iteration', keys, view)
    assert len(m) == len(view), ('len', len(m), len(view))
    for k in ['x', 'y', 'z', 'w']:
        assert (k in m) == (k in view), ('contains', k)
        if k in view:
            assert m[k] == view[k], ('lookup', k, m[k], view[k])
        else:
            try:
                m[k]
            except KeyError:
                pass
            else:
                raise AssertionError(('lookup of absent key succeeded', k))
'''


def lm_consistent(real, view):
    """None if real agrees with the model view on length, iteration and lookup; else (aspect, description)."""
    keys = list(real)
    if len(keys) != len(set(keys)):
        return "iter-duplicates", f"iteration yields duplicates: {keys}"
    if set(keys) != set(view):
        return "iter-keys", f"iteration {keys} vs merged view {sorted(view)}"
    if len(real) != len(view):
        return "len", f"len {len(real)} vs {len(view)}"
    for k in LKEYS:
        if (k in real) != (k in view):
            return "contains", f"`{k} in m` is {k in real}"
        if k in view:
            if real[k] != view[k]:
                return "lookup", f"m[{k!r}] = {real[k]!r} but top-first merge gives {view[k]!r}"
            if real.get(k, "sentinel") != view[k]:
                return "get", f"m.get({k!r}) = {real.get(k)!r}"
        else:
            try:
                real[k]
                return "lookup-absent", f"m[{k!r}] succeeded for an absent key"
            except KeyError:
                pass
            if real.get(k, "sentinel") != "sentinel":
                return "get", f"m.get({k!r}, default) ignored the default"
    return None


def first_named(model, key, path=()):
    """Name reported for key by the documented rule: the named layer (closest named parent) that supplies it."""
    name = ":".join([*path, model.name]) if model.name else (":".join(path) or None)
    if key in model.private:
        return name
    for layer in model.layers:
        v = layer.view() if isinstance(layer, MLM) else layer
        if key in v:
            if isinstance(layer, MLM):
                return first_named(layer, key, (*path, model.name) if model.name else path)
            return name
    return None


def run_lm_sequence(b, counts, rng, ops, counter):
    from formulaic.utils.layered_mapping import LayeredMapping

    lines, real, model, supplied = build_stack(rng, counter)
    lines = ["from formulaic.utils.layered_mapping import LayeredMapping"] + lines
    view0 = model.view()
    lines.append(f"check(m, {view0!r})")
    overlapping = len({k for d, _, _ in supplied for k in d}) < sum(len(d) for d, _, _ in supplied)
    b.case(("lm", tuple(lines), tuple(ops)), overlapping or len(supplied) >= 2, sample={"setup": lines[1:], "ops": list(ops)})

    def witness(extra_line=None):
        body = "\n".join(lines + ([extra_line] if extra_line else []))
        frozen = "\n".join(f"assert {nm} == {snap!r}, 'supplied layer {nm} was mutated'" for _, snap, nm in supplied)
        return {"setup": lines, "code": LM_CHECK_SRC + body + "\n" + frozen + "\n"}

    def verify(clause_prefix, op):
        bad = lm_consistent(real, model.view())
        if bad:
            _fail(b, counts, f"C19.layered.{clause_prefix}", bad[0], witness(), f"after `{op}`: {bad[1]}")
            return False
        for d, snap, nm in supplied:
            if d != snap:
                _fail(b, counts, "C19.layered.supplied-layers-untouched", "mutated", witness(), f"layer {nm} changed from {snap} to {d}")
                return False
        return True

    if not verify("view", "init"):
        return
    for op in ops:
        k = rng.choice(LKEYS)
        view = model.view()
        counter[0] += 1
        v = counter[0]
        if op == "set":
            real[k] = v
            model.private[k] = v
            lines.append(f"m[{k!r}] = {v}; check(m, {model.view()!r})")
        elif op in ("del", "delpriv"):
            if op == "delpriv" and model.private:
                k = rng.choice(sorted(model.private))
            if k in model.private:
                del real[k]
                del model.private[k]
                lines.append(f"del m[{k!r}]; check(m, {model.view()!r})")
            elif k not in view:
                try:
                    del real[k]
                except KeyError:
                    lines.append(f"try:\n    del m[{k!r}]\n    raise AssertionError('deleting an absent key did not raise')\nexcept KeyError: pass")
                else:
                    lines.append(f"del m[{k!r}]")
                    _fail(b, counts, "C19.layered.delete", "absent-key-no-error", witness("raise AssertionError('del of absent key succeeded')"), f"del m[{k!r}] on an absent key did not raise")
                    return
            else:
                continue  # key only in a supplied layer: deletion cannot be confined to the private layer; not judged
        elif op == "get":
            lines.append(f"check(m, {view!r})")
        elif op == "len":
            if len(real) != len(view):
                _fail(b, counts, "C19.layered.view", "len", witness(f"assert len(m) == {len(view)}"), f"len {len(real)} != {len(view)}")
                return
        elif op == "iter":
            pass
        elif op == "contains":
            pass
        elif op == "pop":
            if k in model.private:
                got = real.pop(k)
                want = model.private.pop(k)
                lines.append(f"assert m.pop({k!r}) == {want!r}; check(m, {model.view()!r})")
                if got != want:
                    _fail(b, counts, "C19.layered.view", "pop", witness(), f"pop({k!r}) = {got!r}, want {want!r}")
                    return
            elif k not in view:
                got = real.pop(k, "dflt")
                lines.append(f"assert m.pop({k!r}, 'dflt') == 'dflt'")
                if got != "dflt":
                    _fail(b, counts, "C19.layered.view", "pop", witness(), f"pop of absent key returned {got!r}")
                    return
            else:
                continue
        elif op == "setdefault":
            got = real.setdefault(k, v)
            want = view.get(k, v)
            if k not in view:
                model.private[k] = v
            lines.append(f"assert m.setdefault({k!r}, {v}) == {want!r}; check(m, {model.view()!r})")
            if got != want:
                _fail(b, counts, "C19.layered.view", "setdefault", witness(), f"setdefault({k!r}) = {got!r}, want {want!r}")
                return
        elif op == "update":
            upd = {kk: counter[0] + i for i, kk in enumerate(rng.sample(LKEYS, 2))}
            counter[0] += 2
            real.update(upd)
            model.private.update(upd)
            lines.append(f"m.update({upd!r}); check(m, {model.view()!r})")
        elif op == "owner":
            # the OWNER of a supplied layer (not the LayeredMapping) writes to it -- typically a layer that was still
            # empty when it was handed over; the mapping is a live view, so the new key must show up
            if not supplied:
                continue
            empties = [j for j, (d0, _, _) in enumerate(supplied) if len(d0) == 0]
            j = rng.choice(empties) if empties and rng.random() < 0.7 else rng.randrange(len(supplied))
            d0, _, nm0 = supplied[j]
            d0[k] = v
            supplied[j] = (d0, dict(d0), nm0)
            lines.append(f"{nm0}[{k!r}] = {v}; check(m, {model.view()!r})")
        elif op == "with_layers":
            d = {kk: counter[0] + i for i, kk in enumerate(rng.sample(LKEYS, rng.randint(0, 2)))}  # possibly empty
            counter[0] += 2
            prepend, inplace = rng.random() < 0.5, rng.random() < 0.5
            nm = f"e{len(supplied)}"
            lines.append(f"{nm} = {d!r}")
            supplied.append((d, dict(d), nm))
            new_real = real.with_layers(d, prepend=prepend, inplace=inplace)
            if inplace:
                model.layers = [d, *model.layers] if prepend else [*model.layers, d]
                new_model = model
                if new_real is not real:
                    _fail(b, counts, "C19.layered.with_layers", "inplace-identity", witness(f"assert m.with_layers({nm}, prepend={prepend}, inplace=True) is m"), "inplace=True returned another object")
                    return
                lines.append(f"m = m.with_layers({nm}, prepend={prepend}, inplace=True); check(m, {model.view()!r})")
            else:
                old_view = model.view()
                new_model = MLM([d, model] if prepend else [model, d])
                bad = lm_consistent(real, old_view)
                if bad or new_real is real:
                    _fail(b, counts, "C19.layered.with_layers", "copy-changes-receiver", witness(f"m2 = m.with_layers({nm}, prepend={prepend}); check(m, {old_view!r}); assert m2 is not m"), bad[1] if bad else "returned the receiver")
                    return
                lines.append(f"m = m.with_layers({nm}, prepend={prepend}); check(m, {new_model.view()!r})")
            real, model = new_real, new_model
        elif op == "gwln":
            view = model.view()
            got = real.get_with_layer_name(k, "dflt")
            want = (view[k], first_named(model, k)) if k in view else ("dflt", None)
            lines.append(f"assert m.get_with_layer_name({k!r}, 'dflt') == {want!r}")
            if got != want:
                _fail(b, counts, "C19.layered.layer-name", "value" if got[0] != want[0] else "name", witness(), f"get_with_layer_name({k!r}) = {got!r}, want {want!r}")
                return
            if real.get_layer_name_for_key(k) != want[1]:
                _fail(b, counts, "C19.layered.layer-name", "name", witness(f"assert m.get_layer_name_for_key({k!r}) == {want[1]!r}"), "get_layer_name_for_key differs")
                return
        if not verify("view", op):
            return


# =====================================================================================
# 3. SimpleFormula as a mutable sequence
# =====================================================================================
TERM_POOL = ["1", "a", "b", "c", "d", "a:b", "b:a", "a:c", "c:b", "b:d", "a:b:c", "c:a:b", "d:b:a", "a:b:c:d"]


def mk_term(text):
    from formulaic.parser.types import Factor, Term

    if text == "1":
        return Term([Factor("1", eval_method="literal")])
    return Term([Factor(f, eval_method="lookup") for f in text.split(":")])


def term_key(t):
    return tuple(sorted(f.expr for f in t.factors))


def degree(t):
    return 0 if term_key(t) == ("1",) else len(t.factors)


SF_HEAD = '''from formulaic.formula import SimpleFormula
from formulaic.parser.types import Factor, Term
def T(text):
    if text == '1':
        return Term([Factor('1', eval_method='literal')])
    return Term([Factor(f, eval_method='lookup') for f in text.split(':')])
key = lambda t: tuple(sorted(f.expr for f in t.factors))
deg = lambda t: 0 if key(t) == ('1',) else len(t.factors)
def check(f, ordering, model):
    got = [key(t) for t in f]
    assert sorted(got) == sorted(model), ('terms lost or duplicated', got, model)
    if ordering == 'none':
        assert got == model, ('order', got, model)
    elif ordering == 'degree':
        assert [deg(t) for t in f] == sorted(deg(t) for t in f), ('not sorted by degree', got)
        assert got == model, ('not the stable degree order', got, model)
    else:
        assert all(not (f[i + 1] < f[i]) for i in range(len(f) - 1)), ('not sorted', got)
        assert all([x.expr for x in t.factors] == sorted(x.expr for x in t.factors) for t in f), 'factors not sorted'
    assert got == [key(t) for t in SimpleFormula(list(f), _ordering=ordering)], 'ordering is not a fixpoint'
'''


def run_sf_sequence(b, counts, rng, ordering, ops):
    from formulaic.formula import SimpleFormula

    init = [rng.choice(TERM_POOL) for _ in range(rng.randint(0, 5))]
    lines = [f"f = SimpleFormula([T(t) for t in {init!r}], _ordering={ordering!r})"]
    f = SimpleFormula([mk_term(t) for t in init], _ordering=ordering)

    def sort_model(keys):
        if ordering == "degree":
            return sorted(keys, key=lambda k: 0 if k == ("1",) else len(k))
        if ordering == "sort":
            return sorted(keys, key=lambda k: ((0 if k == ("1",) else len(k)), k))
        return list(keys)

    model = sort_model([term_key(mk_term(t)) for t in init])
    b.case(("sf", ordering, tuple(init), tuple(map(str, ops))), len(ops) >= 2, sample={"ordering": ordering, "init": init, "ops": [str(o) for o in ops]})

    def witness():
        return {"ordering": ordering, "ops": lines, "code": SF_HEAD + "\n".join(lines) + "\n"}

    def verify(op):
        got = [term_key(t) for t in f]
        lines.append(f"check(f, {ordering!r}, {model!r})")
        if sorted(got) != sorted(model):
            _fail(b, counts, "C19.formula.terms", ordering, witness(), f"after `{op}`: terms {got} vs model {model}")
            return False
        if ordering == "none" and got != model:
            _fail(b, counts, "C19.formula.ordering", "none", witness(), f"after `{op}`: sequence {got} vs list model {model}")
            return False
        if ordering == "degree":
            degs = [degree(t) for t in f]
            if degs != sorted(degs):
                _fail(b, counts, "C19.formula.ordering", "degree", witness(), f"degrees {degs} not non-decreasing after {op}")
                return False
            if got != model:
                _fail(b, counts, "C19.formula.ordering", "degree-stable", witness(), f"after `{op}`: {got} is not the stable degree order {model}")
                return False
        if ordering == "sort":
            if any(f[i + 1] < f[i] for i in range(len(f) - 1)):
                _fail(b, counts, "C19.formula.ordering", "sort", witness(), f"after `{op}`: {got} not sorted")
                return False
            if any([x.expr for x in t.factors] != sorted(x.expr for x in t.factors) for t in f):
                _fail(b, counts, "C19.formula.ordering", "sort-factors", witness(), f"after `{op}`: factors not sorted in {list(f)}")
                return False
        fresh = [term_key(t) for t in SimpleFormula(list(f), _ordering=ordering)]
        if fresh != got:
            _fail(b, counts, "C19.formula.ordering", f"fixpoint:{ordering}", witness(), f"after `{op}`: re-sorting changes the sequence: {got} -> {fresh}")
            return False
        return True

    if not verify("init"):
        return
    for op in ops:
        n = len(model)
        t = rng.choice(TERM_POOL)
        tk = term_key(mk_term(t))
        name = op
        try:
            if op == "insert":
                i = rng.randint(-n - 1, n + 1)
                lines.append(f"f.insert({i}, T({t!r}))")
                f.insert(i, mk_term(t))
                model.insert(i, tk)
            elif op == "append":
                lines.append(f"f.append(T({t!r}))")
                f.append(mk_term(t))
                model.append(tk)
            elif op == "extend":
                ts = [rng.choice(TERM_POOL) for _ in range(2)]
                lines.append(f"f.extend([T(t) for t in {ts!r}])")
                f.extend([mk_term(x) for x in ts])
                for x in ts:  # MutableSequence.extend appends one by one (re-sorting after each)
                    model.append(term_key(mk_term(x)))
                    model = sort_model(model)
            elif op == "set":
                if n == 0:
                    continue
                i = rng.randint(-n, n - 1)
                lines.append(f"f[{i}] = T({t!r})")
                f[i] = mk_term(t)
                model[i] = tk
            elif op == "del":
                if n == 0:
                    continue
                i = rng.randint(-n, n - 1)
                lines.append(f"del f[{i}]")
                del f[i]
                del model[i]
            elif op == "delslice":
                i, j = sorted((rng.randint(0, n), rng.randint(0, n)))
                lines.append(f"del f[{i}:{j}]")
                del f[i:j]
                del model[i:j]
            elif op == "pop":
                if n == 0:
                    continue
                i = rng.randint(-n, n - 1)
                lines.append(f"assert key(f.pop({i})) == {model[i]!r}")
                got = term_key(f.pop(i))
                want = model.pop(i)
                if got != want:
                    _fail(b, counts, "C19.formula.terms", f"{ordering}:pop-value", witness(), f"pop({i}) returned {got}, list model {want}")
                    return
            elif op == "slice":
                i, j = sorted((rng.randint(0, n), rng.randint(0, n)))
                sub = f[i:j]
                lines.append(f"g = f[{i}:{j}]; assert isinstance(g, SimpleFormula) and g.ordering == f.ordering and [key(t) for t in g] == {model[i:j]!r}")
                if not isinstance(sub, SimpleFormula) or sub.ordering != f.ordering or [term_key(x) for x in sub] != model[i:j]:
                    _fail(b, counts, "C19.formula.slice", ordering, witness(), f"f[{i}:{j}] = {sub!r} ({type(sub).__name__}), model {model[i:j]}")
                    return
            elif op == "index-error":
                i = n + rng.randint(0, 2)
                lines.append(f"try:\n    f[{i}] = T({t!r})\n    raise AssertionError('no IndexError')\nexcept IndexError: pass")
                try:
                    f[i] = mk_term(t)
                except IndexError:
                    pass
                else:
                    _fail(b, counts, "C19.formula.terms", f"{ordering}:index-error", witness(), f"f[{i}] = ... on length {n} did not raise IndexError")
                    return
        except Exception as e:  # outcome of the code under test
            _fail(b, counts, "C19.formula.terms", f"{ordering}:raises-{type(e).__name__}", witness(), f"{type(e).__name__}: {e}")
            return
        model = sort_model(model)
        if not verify(name):
            return


SF_OPS = ["insert", "insert", "append", "extend", "set", "set", "del", "delslice", "pop", "slice", "index-error"]


# =====================================================================================
def run_bounded(ctx):
    _g.begin("C19", ctx)
    counts = {}

    def rec(b):
        return lambda clause, cls, witness, detail: _fail(b, counts, clause, cls, witness, detail)

    rng = random.Random(ctx.seed)
    with ctx.bounded(
        "structured-nestings",
        rule="seeded random nestings of keyed/tuple structure (depth <= 4, width <= 3, keys root/a/b/c, unique list leaves): "
             "_map (1- and 2-argument callbacks), _flatten, _simplify (5 option sets), _update, _merge (2-3 aligned operands) "
             "against a nested dict/list model; non-trivial = depth >= 2",
        exhaustive=False,
        bound="depth <= 4, width <= 3",
    ) as b:
        for i in range(20000 if ctx.thorough else 2500):
            counter = [0]
            m = gen_struct(rng, rng.randint(0, 3), counter)
            _g.guard(rec(b), check_structured, b, counts, rng, m)
    with ctx.bounded(
        "layered-mapping-histories",
        rule="every operation sequence of length <= 2 (quick) / 3 (thorough) over 14 operations (incl. the owner of a supplied, possibly still empty, layer writing to it; with_layers with an empty layer), and seeded random sequences of "
             "length <= 8, each on a fresh random stack of <= 4 layers (dict, named/unnamed nested LayeredMapping, None) over keys "
             "x,y,z,w; after every step: length/iteration/lookup/get vs the top-first merge model, supplied dicts unchanged; "
             "non-trivial = overlapping keys or >= 2 layers",
        exhaustive=False,
        bound="layers <= 4 (+ layers added by with_layers), keys 4, sequence length <= 8",
    ) as b:
        counter = [0]
        alphabet = sorted(set(LM_OPS))
        for L in range(0, (3 if ctx.thorough else 2) + 1):
            for ops in itertools.product(alphabet, repeat=L):
                _g.guard(rec(b), run_lm_sequence, b, counts, rng, ops, counter)
        for _ in range(60000 if ctx.thorough else 6000):
            ops = [rng.choice(LM_OPS) for _ in range(rng.randint(1, 8))]
            _g.guard(rec(b), run_lm_sequence, b, counts, rng, ops, counter)
    with ctx.bounded(
        "simple-formula-histories",
        rule="for each ordering (degree, none, sort): every operation sequence of length <= 2 (quick) / 3 (thorough) over "
             "insert/append/extend/set/del/del-slice/pop/slice/out-of-range set, and seeded random sequences of length <= 8, on a "
             "random initial formula of <= 5 terms from a pool of 14 terms (degree 0-4, unsorted factor spellings); after each "
             "step: same multiset as a list model, ordering invariant (stable by degree / list order / sorted), re-sorting fixpoint",
        exhaustive=False,
        bound="initial terms <= 5, sequence length <= 8, term pool 14",
    ) as b:
        alphabet = sorted(set(SF_OPS))
        for ordering in ("degree", "none", "sort"):
            for L in range(0, (3 if ctx.thorough else 2) + 1):
                for ops in itertools.product(alphabet, repeat=L):
                    _g.guard(rec(b), run_sf_sequence, b, counts, rng, ordering, list(ops))
            for _ in range(15000 if ctx.thorough else 1500):
                _g.guard(rec(b), run_sf_sequence, b, counts, rng, ordering, [rng.choice(SF_OPS) for _ in range(rng.randint(1, 8))])
    ctx.assume(
        "C19-structured: nested tuples are structure (as in the constructor, _map, _to_dict and _simplify); leaves are non-tuple objects",
        "C19-merge: operands are aligned (no tuple meets a non-tuple; tuples never collide) so that _merge is a pure dictionary merge; "
        "list leaves are concatenated by the documented default merger; a leaf meeting a Structured is upcast to {root: leaf}",
        "C19-layered: deleting/popping a key that lives only in a supplied layer is not judged (it cannot be confined to the private layer); "
        "iteration order is not judged, only the key set without duplicates",
        "C19-formula: 'degree' ordering is stable w.r.t. insertion order (docs: sorted by degree, then by order of appearance); 'sort' is "
        "judged by Term's own order; slice assignment and reverse() are not driven",
        "C19-map-typeerror: callbacks never raise TypeError themselves (the 2-argument/1-argument fallback would call them twice)",
    )
