"""C17 bounded stand-in: required variables, name resolution order, '.' expansion.

A. required_variables -- sufficiency (materialization succeeds on the data restricted to exactly the
   reported columns) and necessity (dropping any one makes it fail with FactorEvaluationError), before
   (Formula.required_variables) and after (ModelSpec(s).required_variables) materialization.
   Oracle notes from DESIGN.md section 5 are respected: the *before* test is only run for formulas whose
   free value-names are all data columns, and string-addressed lookups (Q('name')) are not generated.
B. resolution order data > context > transforms, decided by which VALUE ends up in the matrix (every
   layer supplies a distinguishable value), and `variables_by_source` vs that observed origin.
C. '.' == data columns not used on the left-hand side, in data order.
"""
from __future__ import annotations

import itertools
import random
import warnings

MAX_REPORT = 5

HEAD = """import warnings; warnings.simplefilter('ignore')
import numpy as np, pandas as pd
from formulaic import Formula, model_matrix
from formulaic.errors import FactorEvaluationError
"""

COLS = {
    "x": [1.0, 2.0, 3.0, 4.0, 6.0],
    "y": [2.0, 1.0, 0.5, 1.0, 3.0],
    "z": [0.5, 1.5, 2.5, 0.0, 1.0],
    "w": [4.0, 1.0, 3.0, 2.0, 5.0],
    "my col": [3.0, 1.0, 4.0, 1.0, 5.0],
    "log": [7.0, 8.0, 9.0, 11.0, 12.0],
    "center": [1.0, 0.0, 2.0, 0.0, 1.0],
    "unused1": [9.0, 9.5, 8.0, 7.0, 6.0],
    # column names containing a dot (common for data coming from R) and their common root
    "Sepal.Length": [5.1, 4.9, 4.7, 4.6, 5.0],
    "Sepal.Width": [3.5, 3.0, 3.2, 3.1, 3.6],
    "Sepal": [1.0, 2.0, 1.0, 2.0, 3.0],
    "lo": [0.0, 1.0, 1.0, 2.0, 0.5],
    "hi": [3.0, 3.0, 2.5, 3.0, 4.0],
}


def _fail(b, counts, clause, cls, witness, detail):
    k = (clause, cls)
    counts[k] = counts.get(k, 0) + 1
    if counts[k] <= MAX_REPORT:
        b.fail(clause, dict(witness, cls=cls), detail)


def frame(cols):
    import pandas as pd

    return pd.DataFrame({c: COLS[c] for c in cols})


def frame_src(cols):
    return "pd.DataFrame(" + repr({c: COLS[c] for c in cols}) + ")"


CTX_SRC = {"none": "{}", "np": "{'np': np}", "np+k": "{'np': np, 'k': 3.0}"}


def ctx_of(name):
    import numpy as np

    return {"none": {}, "np": {"np": np}, "np+k": {"np": np, "k": 3.0}}[name]


# ----------------------------------------------------------------------------- A. required variables
# (formula, kind tag, names it truly reads from the data, context key, eligible for the *before* test)
def formulas_a(rng, thorough):
    names = ["x", "y", "z", "w"]
    out = []

    def add(f, kind, reads, ctx="none", before=True):
        out.append((f, kind, tuple(sorted(reads)), ctx, before))

    for a, b in itertools.permutations(names[:3], 2):
        add(f"{a} + {b}", "plain", {a, b})
        add(f"{b}:{a} + {a}", "plain", {a, b})
        add(f"{a} ~ {b}", "two-sided", {a, b})
        add(f"np.log(np.abs({a}) + 1) + {b}", "nested-call", {a, b}, "np")
        add(f"center(scale({a})) + {b}", "nested-call", {a, b})
        add(f"I({a} + {b})", "expression", {a, b})
        add(f"{{{a} * 2 + {b}}}", "expression", {a, b})
        add(f"I({a} ** 2) + I({b} > 1)", "expression", {a, b})
        add(f"I({a}.values * 2) + {b}", "attribute", {a, b})
        add(f"{a}.mean() + {b}", "attribute-call", {a, b})
        add(f"`my col` + {a}", "quoted", {"my col", a})
        add(f"`my col`:{a} + {b}", "quoted", {"my col", a, b})
        add(f"log + {a}", "column-named-like-transform", {"log", a})
        add(f"{a} + center", "column-named-like-transform", {"center", a})
        add(f"I({a} * k) + {b}", "context-constant", {a, b}, "np+k", before=False)
        add(f"poly({a}, 2) + bs({b}, df=3)", "stateful-transform", {a, b})
        add(f"C({a}) + {b}", "stateful-transform", {a, b})
        add(f"C({a}, contr.sum) + {b}", "transform-constant", {a, b})
        # names in every argument position of a call: positional, keyword, nested inside a keyword
        add(f"np.clip({a}, a_min=lo, a_max=hi) + {b}", "keyword-argument", {a, b, "lo", "hi"}, "np")
        add(f"np.clip({a}, a_min=np.abs({b}), a_max=10)", "keyword-argument", {a, b}, "np")
        add(f"np.maximum({a}, {b}) + np.where({a} > 1, {b}, w)", "positional-arguments", {a, b, "w"}, "np")
        add(f"poly({a}, degree=2) + scale({b}, center=True)", "keyword-constant", {a, b})
        add(f"center(np.add({a}, {b}))", "nested-call", {a, b}, "np")
        # data columns whose names contain a dot
        add(f"Sepal.Length + {a}", "dotted-column", {"Sepal.Length", a})
        add(f"`Sepal.Width`:{a} + {b} + Sepal", "dotted-column", {"Sepal.Width", "Sepal", a, b})
        add(f"Sepal.Length ~ {a} + Sepal.Width", "dotted-column", {"Sepal.Length", "Sepal.Width", a})
    add("x + y + z + w", "plain", set(names))
    add("(x + y + z)**2", "plain", {"x", "y", "z"})
    add("y + z ~ x + np.sqrt(w)", "two-sided", set(names), "np")
    add("np.log(y) ~ x:z", "two-sided", {"x", "y", "z"}, "np")
    add("x", "plain", {"x"})
    add("1", "plain", set())
    if True:
        for _ in range(400 if thorough else 40):
            k = rng.randint(1, 4)
            atoms = []
            reads = set()
            for _ in range(k):
                a = rng.choice(names)
                c = rng.choice(names)
                form = rng.choice(["{a}", "{a}", "center({a})", "np.log({a} + 10)", "I({a} * 2)", "{{{a} + 1}}", "poly({a}, 2)", "scale(center({a}))",
                                   "np.clip({a}, a_min=0, a_max={c})", "np.add({a}, {c})", "poly({a}, degree=2)", "np.clip(a=I({a}), a_min={c}, a_max=100)"])
                atoms.append(form.format(a=a, c=c))
                reads.add(a)
                if "{c}" in form:
                    reads.add(c)
            rng.shuffle(atoms)
            f = rng.choice([" + ", ":", " + ", "*"]).join(dict.fromkeys(atoms))
            add(f, "random", reads, "np")
    return out


REPRO_A = HEAD + """data = {data}
context = {ctx}
formula = {formula!r}
{get_rv}
cols = list(data.columns)
assert all(v in cols for v in rv), ('reported variable is not a data column', rv)
restricted = data[[c for c in cols if c in rv]]
{run}
"""
GET_BEFORE = "rv = sorted(str(v) for v in Formula(formula).required_variables)\nbuild = lambda d: model_matrix(formula, d, context=context)"
GET_AFTER = ("spec = model_matrix(formula, data, context=context).model_spec\nrv = sorted(str(v) for v in spec.required_variables)\n"
             "build = lambda d: spec.get_model_matrix(d, context=context)")
RUN_SUFF = "build(restricted)  # sufficiency: must not raise"
RUN_NEC = """for v in rv:
    try:
        build(restricted.drop(columns=[v]))
    except FactorEvaluationError:
        continue
    raise AssertionError(('not necessary / wrong error', v))"""


def check_required(b, counts, formula, kind, reads, ctxname, before_ok, extra_cols):
    from formulaic import Formula, model_matrix
    from formulaic.errors import FactorEvaluationError

    cols = [c for c in COLS if c in reads or c in extra_cols]
    data = frame(cols)
    context = ctx_of(ctxname)
    base = {"formula": formula, "kind": kind, "data_columns": cols, "context": ctxname}

    def run_phase(phase, get_src, get_rv, build):
        b.case(("required", phase, formula, tuple(cols), ctxname), nontrivial=len(reads) >= 2,
               sample={"formula": formula, "phase": phase, "columns": cols, "context": ctxname})

        def W(run):
            return dict(base, phase=phase, code=REPRO_A.format(data=frame_src(cols), ctx=CTX_SRC[ctxname], formula=formula, get_rv=get_src, run=run))

        try:
            rv = sorted(str(v) for v in get_rv())
        except Exception as e:  # outcome of the code under test
            _fail(b, counts, f"C17.required.{phase}.sufficient", f"{kind}:required_variables-raises-{type(e).__name__}", W(RUN_SUFF), f"{type(e).__name__}: {e}")
            return
        not_cols = [v for v in rv if v not in cols]
        if not_cols:
            _fail(b, counts, f"C17.required.{phase}.sufficient", f"{kind}:reports-non-column", W(RUN_SUFF),
                  f"required_variables = {rv}; {not_cols} are not data columns, so the data cannot be restricted to them (formula reads {list(reads)})")
            return
        restricted = data[[c for c in cols if c in rv]]
        try:
            build(restricted)
        except Exception as e:  # outcome of the code under test
            _fail(b, counts, f"C17.required.{phase}.sufficient", f"{kind}:restricted-data-fails", W(RUN_SUFF),
                  f"required_variables = {rv} but materializing on exactly those columns raised {type(e).__name__}: {e}")
            return
        for v in rv:
            try:
                build(restricted.drop(columns=[v]))
            except FactorEvaluationError:
                continue
            except Exception as e:  # outcome of the code under test
                _fail(b, counts, f"C17.required.{phase}.necessary", f"{kind}:other-error-{type(e).__name__}", W(RUN_NEC), f"without `{v}`: {type(e).__name__}: {e}")
                continue
            _fail(b, counts, f"C17.required.{phase}.necessary", f"{kind}:not-needed", W(RUN_NEC), f"required_variables = {rv} but materialization succeeds without `{v}`")

    if before_ok:
        run_phase("before", GET_BEFORE, lambda: Formula(formula).required_variables, lambda d: model_matrix(formula, d, context=context))
    try:
        spec = model_matrix(formula, data, context=context).model_spec
    except Exception:
        return  # not materializable on the full data: nothing to say about the materialized spec
    run_phase("after", GET_AFTER, lambda: spec.required_variables, lambda d: spec.get_model_matrix(d, context=context))


# ----------------------------------------------------------------------------- B. resolution order
DATA_VAL = [1.0, 2.0, 3.0, 5.0]
CTX_VAL = [10.0, 20.0, 30.0, 40.0]
XVAL = [1.0, 2.0, 4.0, 8.0]

REPRO_B = HEAD + """data = pd.DataFrame({data!r})
context = {ctx}
mm = model_matrix({formula!r}, data, context=context)
col = np.asarray(mm, dtype=float)[:, -1].tolist()
assert col == {want!r}, ('value came from the wrong layer', col)
src = {{str(v): k for k, vs in mm.model_spec.variables_by_source.items() for v in vs}}
assert src.get({var!r}) == {layer!r}, ('reported source', src)
"""
REPRO_B_FAIL = HEAD + """data = pd.DataFrame({data!r})
context = {ctx}
try:
    model_matrix({formula!r}, data, context=context)
except FactorEvaluationError:
    pass
else:
    raise AssertionError('the data column should shadow the callable of the same name')
"""


def check_resolution(b, counts):
    import numpy as np
    import pandas as pd
    from formulaic import model_matrix
    from formulaic.errors import FactorEvaluationError
    from formulaic.transforms import TRANSFORMS

    class Cfg:
        scale = 2.0

    assert "log" in TRANSFORMS and "center" in TRANSFORMS and "n" not in TRANSFORMS  # driver self-check

    # value-role names: (name, in_data, in_context); in_transforms is a property of the name
    uses = [("{n} - 1", "lookup"), ("I({n} * 1) - 1", "python-call"), ("{{{n} + 0}} - 1", "python-braces"), ("x:{n} - 1", "interaction")]
    for name in ("n", "log", "center"):
        for in_data, in_ctx in ((1, 0), (0, 1), (1, 1)):
            for tmpl, how in uses:
                formula = tmpl.format(n=name)
                data = {"x": XVAL}
                if in_data:
                    data[name] = DATA_VAL
                ctx = {name: np.array(CTX_VAL)} if in_ctx else {}
                ctx_src = f"{{{name!r}: np.array({CTX_VAL!r})}}" if in_ctx else "{}"
                layer = "data" if in_data else "context"
                vals = DATA_VAL if in_data else CTX_VAL
                want = [a * c for a, c in zip(XVAL, vals)] if how == "interaction" else list(vals)
                b.case(("resolve-value", formula, in_data, in_ctx), nontrivial=in_data + in_ctx + (name in TRANSFORMS) >= 2,
                       sample={"formula": formula, "in_data": bool(in_data), "in_context": bool(in_ctx), "in_transforms": name in TRANSFORMS})
                w = {"formula": formula, "name": name, "layers": {"data": bool(in_data), "context": bool(in_ctx), "transforms": name in TRANSFORMS},
                     "code": REPRO_B.format(data=data, ctx=ctx_src, formula=formula, want=want, var=name, layer=layer)}
                tag = f"value:{how}:{'D' if in_data else ''}{'C' if in_ctx else ''}{'T' if name in TRANSFORMS else ''}"
                try:
                    mm = model_matrix(formula, pd.DataFrame(data), context=ctx)
                    col = np.asarray(mm, dtype=float)[:, -1].tolist()
                    src = {str(v): k for k, vs in mm.model_spec.variables_by_source.items() for v in vs}
                except Exception as e:  # outcome of the code under test
                    _fail(b, counts, "C17.resolution.order", tag + f":raises-{type(e).__name__}", w, f"{type(e).__name__}: {e}")
                    continue
                if col != want:
                    actual = "context" if col == (CTX_VAL if how != "interaction" else [a * c for a, c in zip(XVAL, CTX_VAL)]) else "other"
                    _fail(b, counts, "C17.resolution.order", tag, w, f"column {col}: value came from `{actual}`, expected `{layer}` ({want})")
                elif src.get(name) != layer:
                    _fail(b, counts, "C17.resolution.source-report", tag, w, f"value came from `{layer}` but variables_by_source says {src.get(name)!r} ({src})")

    # callables: context overrides a built-in transform; built-in used otherwise; plain context function; dotted context object
    seven = [7.0] * 4
    centered = [v - sum(XVAL) / 4 for v in XVAL]
    cases = [
        ("center(x) - 1", {}, "{}", centered, "center", "transforms", "callable:T"),
        ("center(x) - 1", {"center": lambda v: v * 0 + 7}, "{'center': lambda v: v * 0 + 7}", seven, "center", "context", "callable:CT"),
        ("f(x) - 1", {"f": lambda v: v + 100}, "{'f': lambda v: v + 100}", [v + 100 for v in XVAL], "f", "context", "callable:C"),
        ("{cfg.scale * x} - 1", {"cfg": Cfg}, "{'cfg': type('Cfg', (), {'scale': 2.0})}", [2 * v for v in XVAL], "cfg.scale", "context", "dotted:C"),
        ("np.log(x) - 1", {"np": np}, "{'np': np}", [float(np.log(v)) for v in XVAL], "np.log", "context", "dotted-callable:C"),
        ("I(x * k) - 1", {"k": 3.0}, "{'k': 3.0}", [3 * v for v in XVAL], "k", "context", "constant:C"),
        ("I(x * k) - 1", {"k": 3.0}, "{'k': 3.0}", [3 * v for v in XVAL], "x", "data", "constant:C"),
    ]
    for formula, ctx, ctx_src, want, var, layer, tag in cases:
        b.case(("resolve-callable", formula, tag, var), nontrivial=True, sample={"formula": formula, "context": ctx_src})
        data = {"x": XVAL}
        w = {"formula": formula, "name": var, "code": REPRO_B.format(data=data, ctx=ctx_src, formula=formula, want=want, var=var, layer=layer)}
        try:
            mm = model_matrix(formula, pd.DataFrame(data), context=ctx)
            col = np.asarray(mm, dtype=float)[:, -1].tolist()
            src = {str(v): k for k, vs in mm.model_spec.variables_by_source.items() for v in vs}
        except Exception as e:  # outcome of the code under test
            _fail(b, counts, "C17.resolution.order", tag + f":raises-{type(e).__name__}", w, f"{type(e).__name__}: {e}")
            continue
        if not np.allclose(col, want, rtol=0, atol=1e-12):
            _fail(b, counts, "C17.resolution.order", tag, w, f"column {col}, expected {want} (from `{layer}`)")
        elif src.get(var) != layer:
            _fail(b, counts, "C17.resolution.source-report", tag, w, f"`{var}` came from `{layer}` but variables_by_source says {src.get(var)!r} ({src})")
    # a data column shadows a callable of the same name (data first), so calling it cannot work
    for ctx, ctx_src in (({}, "{}"), ({"center": lambda v: v * 0 + 7}, "{'center': lambda v: v * 0 + 7}")):
        data = {"x": XVAL, "center": DATA_VAL}
        b.case(("resolve-callable-shadowed", ctx_src), nontrivial=True)
        w = {"formula": "center(x) - 1", "code": REPRO_B_FAIL.format(data=data, ctx=ctx_src, formula="center(x) - 1")}
        try:
            model_matrix("center(x) - 1", pd.DataFrame(data), context=ctx)
            _fail(b, counts, "C17.resolution.order", "callable-shadowed-by-data", w, "center(x) evaluated although the data has a column `center` (data must win)")
        except FactorEvaluationError:
            pass
        except Exception as e:  # outcome of the code under test
            _fail(b, counts, "C17.resolution.order", f"callable-shadowed-by-data:raises-{type(e).__name__}", w, f"{type(e).__name__}: {e}")


# ----------------------------------------------------------------------------- C. '.' expansion
REPRO_C = HEAD + """from formulaic.parser import DefaultFormulaParser
data = pd.DataFrame({data!r})
{build}
rhs = [str(t) for t in terms]
assert rhs == {want!r}, (rhs, {want!r})
"""
BUILD_MM = ("mm = model_matrix({formula!r}, data, context={{'np': np}})\n"
            "spec = mm.model_spec if hasattr(mm.model_spec, 'terms') else mm.rhs.model_spec\nterms = spec.terms")
BUILD_FORMULA = ("f = Formula({formula!r}, _context={{'__formulaic_variables_available__': list(data.columns)}}{parser})\n"
                 "terms = list(f.rhs) if hasattr(f, 'rhs') else list(f)")


def check_dot(b, counts, rng, thorough):
    import numpy as np
    import pandas as pd
    from formulaic import Formula, model_matrix
    from formulaic.parser import DefaultFormulaParser

    base_cols = ["w", "y", "x", "my col", "z"]
    orders = [base_cols, ["z", "x", "y", "w", "my col"], ["y", "my col", "w"], ["x", "y"],
              ["Sepal.Length", "Sepal.Width", "Sepal", "w"], ["w", "Sepal", "y", "Sepal.Width", "Sepal.Length"]]
    if thorough:
        orders += [list(p) for p in itertools.islice(itertools.permutations(base_cols), 3, 120, 7)]
    # (formula template, lhs-used columns, extra rhs terms after the expansion, removed columns, intercept)
    forms = [
        ("y ~ .", ["y"], [], [], True),
        ("y + x ~ .", ["y", "x"], [], [], True),
        ("np.log(y) ~ .", ["y"], [], [], True),
        ("I(y + x) ~ .", ["y", "x"], [], [], True),
        ("`my col` ~ .", ["my col"], [], [], True),
        (".", [], [], [], True),
        ("~ .", [], [], [], True),
        ("y ~ . - x", ["y"], [], ["x"], True),
        ("y ~ . + x:y", ["y"], ["x:y"], [], True),
        ("y ~ 0 + .", ["y"], [], [], False),
        ("y ~ . - 1", ["y"], [], [], False),
        ("Sepal.Length ~ .", ["Sepal.Length"], [], [], True),
        ("`Sepal.Length` ~ .", ["Sepal.Length"], [], [], True),
        ("Sepal ~ .", ["Sepal"], [], [], True),
        ("Sepal.Width + w ~ .", ["Sepal.Width", "w"], [], [], True),
        ("np.log(w) ~ . - Sepal", ["w"], [], ["Sepal"], True),
    ]
    for cols in orders:
        data = {c: COLS[c][:4] for c in cols}
        df = pd.DataFrame(data)
        for formula, used, extra, removed, icpt in forms:
            if any(u not in cols for u in used + removed) or ("x:y" in extra and not {"x", "y"} <= set(cols)):
                continue
            want = (["1"] if icpt else []) + [c for c in cols if c not in used and c not in removed] + extra
            for entry in ("model_matrix", "Formula+available", "Formula+available+no-intercept-parser"):
                if entry.endswith("no-intercept-parser"):
                    if not icpt or formula in ("y ~ . - 1",):
                        continue
                    want_e = [t for t in want if t != "1"]
                else:
                    want_e = want
                b.case(("dot", formula, tuple(cols), entry), nontrivial=len(cols) > len(used) + 1,
                       sample={"formula": formula, "columns": cols, "entry": entry})
                parser_src = ", _parser=DefaultFormulaParser(include_intercept=False)" if entry.endswith("no-intercept-parser") else ""
                build = BUILD_MM.format(formula=formula) if entry == "model_matrix" else BUILD_FORMULA.format(formula=formula, parser=parser_src)
                w = {"formula": formula, "columns": cols, "entry": entry, "code": REPRO_C.format(data=data, build=build, want=want_e)}
                try:
                    if entry == "model_matrix":
                        mm = model_matrix(formula, df, context={"np": np})
                        spec = mm.model_spec if hasattr(mm.model_spec, "terms") else mm.rhs.model_spec
                        got = [str(t) for t in spec.terms]
                    else:
                        kw = {"_parser": DefaultFormulaParser(include_intercept=False)} if parser_src else {}
                        f = Formula(formula, _context={"__formulaic_variables_available__": list(cols)}, **kw)
                        got = [str(t) for t in (f.rhs if hasattr(f, "rhs") else f)]
                except Exception as e:  # outcome of the code under test
                    _fail(b, counts, "C17.dot.expansion", f"{entry}:raises-{type(e).__name__}", w, f"{type(e).__name__}: {e}")
                    continue
                if got != want_e:
                    cls = "order" if sorted(got) == sorted(want_e) else ("includes-lhs" if set(used) & set(got) else "terms")
                    _fail(b, counts, "C17.dot.expansion", f"{entry}:{cls}", w, f"rhs terms {got}, expected {want_e} (data columns {cols}, lhs uses {used})")


# -----------------------------------------------------------------------------
def run_bounded(ctx):
    rng = random.Random(ctx.seed)
    counts = {}
    with warnings.catch_warnings():
        warnings.simplefilter("ignore")
        with ctx.bounded(
            "required-variables",
            rule="formula templates (plain, two-sided, nested calls, python expressions, attribute access, quoted names, data columns "
                 "named like transforms, context constants, stateful transforms, keyword/positional/nested call arguments, dotted column names) instantiated over ordered pairs of x,y,z (+ 40/400 seeded "
                 "random formulas) x 2 data column sets (exactly the read columns / plus unrelated columns) x "
                 "phase before/after; each case restricts the data to the reported set and then drops every reported column in turn; "
                 "non-trivial = the formula reads >= 2 columns",
            exhaustive=False,
            bound="names x,y,z,w,`my col`,log,center; <= 4 atoms per random formula",
        ) as b:
            for formula, kind, reads, ctxname, before_ok in formulas_a(rng, ctx.thorough):
                for extra in ((), ("unused1", "w")):
                    check_required(b, counts, formula, kind, set(reads), ctxname, before_ok, extra)
        with ctx.bounded(
            "resolution-order",
            rule="every name in {n (no transform), log, center (built-in transforms)} x presence in data/context (3 patterns) x 4 ways "
                 "of using a value (bare name, inside I(), inside {}, in an interaction), plus callables (built-in, context override, "
                 "context-only, dotted attribute/callable, constants) and a data column shadowing a callable; each layer supplies a "
                 "distinguishable value so the matrix shows where the value came from; non-trivial = >= 2 layers define the name",
            exhaustive=True,
            bound="3 names x 3 presence patterns x 4 usages + 9 callable cases",
        ) as b:
            check_resolution(b, counts)
        with ctx.bounded(
            "dot-expansion",
            rule="16 formulas with '.' (different left-hand sides incl. calls/expressions/quoted names/column names containing a dot next to their root, '.' alone, removal, extra "
                 "interaction, no intercept) x data column orders (6 quick / +17 permutations thorough) x 3 entry points "
                 "(model_matrix, Formula with __formulaic_variables_available__, same with the no-intercept parser); expected rhs = "
                 "[1] + data columns not used on the lhs in data order (+/- the written extras)",
            exhaustive=False,
            bound="columns <= 5",
        ) as b:
            check_dot(b, counts, rng, ctx.thorough)
    ctx.assume(
        "C17-before: Formula.required_variables is only judged for formulas whose free value-names are all data columns (names living "
        "in the caller's context are documented to be reported until materialization resolves them)",
        "C17-necessity: tested with contexts that do not define the dropped name (otherwise the context legitimately supplies it)",
        "C17-Q: string-addressed lookups Q('name') are outside 'reference columns by name' and are not generated",
        "C17-origin: where a value 'actually came from' is decided by the numbers in the matrix (every layer supplies different numbers)",
        "C17-dot: all data columns are numeric, so each expanded term is exactly one column",
    )
