"""C17 bounded stand-in: required variables, name resolution order, '.' expansion.

A. required_variables -- sufficiency (materialization succeeds on the data restricted to exactly the
   reported columns) and necessity (dropping any one makes it fail with FactorEvaluationError), before
   (Formula.required_variables) and after (ModelSpec(s).required_variables) materialization.
   Oracle notes from DESIGN.md section 5 are respected: the *before* test is only run for formulas whose
   free value-names are all data columns, and string-addressed lookups (Q('name')) are not generated.
B. resolution order data > context > transforms, decided by which VALUE ends up in the matrix (every
   layer supplies a distinguishable value), and `variables_by_source` vs that observed origin.
C. '.' == data columns not used on the left-hand side, in data order.
"""
from __future__ import annotations

from vf.bounded import _meta_guard as _g  # noqa: E402

import itertools
import random
import warnings

MAX_REPORT = 5

HEAD = """import warnings; warnings.simplefilter('ignore')
import numpy as np, pandas as pd
from formulaic import Formula, model_matrix
from formulaic.errors import FactorEvaluationError
"""

COLS = {
    "x": [1.0, 2.0, 3.0, 4.0, 6.0],
    "y": [2.0, 1.0, 0.5, 1.0, 3.0],
    "z": [0.5, 1.5, 2.5, 0.0, 1.0],
    "w": [4.0, 1.0, 3.0, 2.0, 5.0],
    "my col": [3.0, 1.0, 4.0, 1.0, 5.0],
    "log": [7.0, 8.0, 9.0, 11.0, 12.0],
    "center": [1.0, 0.0, 2.0, 0.0, 1.0],
    "unused1": [9.0, 9.5, 8.0, 7.0, 6.0],
    # column names that are not Python identifiers (must be back-ticked, also inside Python-expression factors)
    "a-b": [2.0, 4.0, 1.0, 3.0, 2.5],
    "1x": [1.5, 2.5, 0.5, 3.5, 4.0],
    # column names containing a dot (common for data coming from R) and their common root
    "Sepal.Length": [5.1, 4.9, 4.7, 4.6, 5.0],
    "Sepal.Width": [3.5, 3.0, 3.2, 3.1, 3.6],
    "Sepal": [1.0, 2.0, 1.0, 2.0, 3.0],
    # categorical columns: one with a single observed level (its terms are encoded into ZERO columns next to an
    # intercept, yet the column is still evaluated) and an ordinary one
    "D": ["k", "k", "k", "k", "k"],
    "G": ["p", "q", "r", "p", "q"],
    # integer position columns, used only inside subscript indices
    "ix": [4, 3, 2, 1, 0],
    "jx": [0, 0, 1, 1, 2],
    "lo": [0.0, 1.0, 1.0, 2.0, 0.5],
    "hi": [3.0, 3.0, 2.5, 3.0, 4.0],
}


def _fail(b, counts, clause, cls, witness, detail):
    k = (clause, cls)
    counts[k] = counts.get(k, 0) + 1
    if counts[k] <= MAX_REPORT:
        b.fail(clause, dict(witness, cls=cls), detail)


def frame(cols):
    import pandas as pd

    return pd.DataFrame({c: COLS[c] for c in cols})


def frame_src(cols):
    return "pd.DataFrame(" + repr({c: COLS[c] for c in cols}) + ")"


CTX_SRC = {"none": "{}", "np": "{'np': np}", "np+k": "{'np': np, 'k': 3.0}"}


def ctx_of(name):
    import numpy as np

    return {"none": {}, "np": {"np": np}, "np+k": {"np": np, "k": 3.0}}[name]


# ----------------------------------------------------------------------------- A. required variables
# (formula, kind tag, names it truly reads from the data, context key, eligible for the *before* test)
def formulas_a(rng, thorough):
    names = ["x", "y", "z", "w"]
    out = []

    def add(f, kind, reads, ctx="none", before=True):
        out.append((f, kind, tuple(sorted(reads)), ctx, before))

    for a, b in itertools.permutations(names[:3], 2):
        add(f"{a} + {b}", "plain", {a, b})
        add(f"{b}:{a} + {a}", "plain", {a, b})
        add(f"{a} ~ {b}", "two-sided", {a, b})
        add(f"np.log(np.abs({a}) + 1) + {b}", "nested-call", {a, b}, "np")
        add(f"center(scale({a})) + {b}", "nested-call", {a, b})
        add(f"I({a} + {b})", "expression", {a, b})
        add(f"{{{a} * 2 + {b}}}", "expression", {a, b})
        add(f"I({a} ** 2) + I({b} > 1)", "expression", {a, b})
        add(f"I({a}.values * 2) + {b}", "attribute", {a, b})
        add(f"{a}.mean() + {b}", "attribute-call", {a, b})
        add(f"`my col` + {a}", "quoted", {"my col", a})
        # back-ticked (non-identifier) column names INSIDE Python-expression factors. Before materialization
        # Formula.required_variables raises SyntaxError for these on HEAD (the sanitized aliases are only known to the
        # evaluator), (repaired by fix M5: both halves are judged).
        add(f"np.log(`my col` + 10) + {a}", "quoted-in-python", {"my col", a}, "np")
        add(f"center(`my col`):{a} + {b}", "quoted-in-python", {"my col", a, b})
        add(f"C(`1x`) + {a}", "quoted-in-python", {"1x", a})
        add(f"I(`a-b` * 2) + {{`1x` + {a}}}", "quoted-in-python", {"a-b", "1x", a})
        add(f"np.maximum(`a-b`, {a}) ~ poly(`my col`, degree=2) + {b}", "quoted-in-python", {"a-b", "my col", a, b}, "np")
        add(f"`my col`:{a} + {b}", "quoted", {"my col", a, b})
        add(f"log + {a}", "column-named-like-transform", {"log", a})
        add(f"{a} + center", "column-named-like-transform", {"center", a})
        add(f"I({a} * k) + {b}", "context-constant", {a, b}, "np+k", before=False)
        add(f"poly({a}, 2) + bs({b}, df=3)", "stateful-transform", {a, b})
        add(f"C({a}) + {b}", "stateful-transform", {a, b})
        add(f"C({a}, contr.sum) + {b}", "transform-constant", {a, b})
        # terms that are encoded into zero columns (single-level factor under full-rank coding with an intercept),
        # next to ordinary categorical terms; the column is still read, so it is still required
        add(f"D + {a}", "zero-column-term", {"D", a})
        add(f"C(D) + {a}:{b}", "zero-column-term", {"D", a, b})
        add(f"{a} ~ {b} + C(D)", "zero-column-term", {"D", a, b})
        add(f"G + D + {a}", "zero-column-term", {"G", "D", a})
        add(f"D:{a} + {a} + C(G):{b}", "zero-column-term", {"D", "G", a, b})
        add(f"C(D, levels=['k']) + {a}", "zero-column-term", {"D", a})
        add(f"{a} + D - 1", "categorical", {"D", a})
        # a data column that is mentioned only inside a subscript index (also nested, and after a constant slice)
        add(f"I(np.asarray({a})[ix]) + {b}", "subscript-index", {a, b, "ix"}, "np")
        add(f"I(np.asarray({a})[np.asarray(ix)[jx]]) + {b}", "subscript-index", {a, b, "ix", "jx"}, "np")
        add(f"{{np.asarray({a})[0:5][jx] * 2}}", "subscript-index", {a, "jx"}, "np")
        add(f"{b} ~ np.take(np.asarray({a}), ix)[jx]", "subscript-index", {a, b, "ix", "jx"}, "np")
        # names in every argument position of a call: positional, keyword, nested inside a keyword
        add(f"np.clip({a}, a_min=lo, a_max=hi) + {b}", "keyword-argument", {a, b, "lo", "hi"}, "np")
        add(f"np.clip({a}, a_min=np.abs({b}), a_max=10)", "keyword-argument", {a, b}, "np")
        add(f"np.maximum({a}, {b}) + np.where({a} > 1, {b}, w)", "positional-arguments", {a, b, "w"}, "np")
        add(f"poly({a}, degree=2) + scale({b}, center=True)", "keyword-constant", {a, b})
        add(f"center(np.add({a}, {b}))", "nested-call", {a, b}, "np")
        # data columns whose names contain a dot
        add(f"Sepal.Length + {a}", "dotted-column", {"Sepal.Length", a})
        add(f"`Sepal.Width`:{a} + {b} + Sepal", "dotted-column", {"Sepal.Width", "Sepal", a, b})
        add(f"Sepal.Length ~ {a} + Sepal.Width", "dotted-column", {"Sepal.Length", "Sepal.Width", a})
    add("x + y + z + w", "plain", set(names))
    add("(x + y + z)**2", "plain", {"x", "y", "z"})
    add("y + z ~ x + np.sqrt(w)", "two-sided", set(names), "np")
    add("np.log(y) ~ x:z", "two-sided", {"x", "y", "z"}, "np")
    add("x", "plain", {"x"})
    add("1", "plain", set())
    if True:
        for _ in range(400 if thorough else 40):
            k = rng.randint(1, 4)
            atoms = []
            reads = set()
            for _ in range(k):
                a = rng.choice(names)
                c = rng.choice(names)
                form = rng.choice(["{a}", "{a}", "center({a})", "np.log({a} + 10)", "I({a} * 2)", "{{{a} + 1}}", "poly({a}, 2)", "scale(center({a}))",
                                   "np.clip({a}, a_min=0, a_max={c})", "np.add({a}, {c})", "poly({a}, degree=2)", "np.clip(a=I({a}), a_min={c}, a_max=100)"])
                atoms.append(form.format(a=a, c=c))
                reads.add(a)
                if "{c}" in form:
                    reads.add(c)
            rng.shuffle(atoms)
            f = rng.choice([" + ", ":", " + ", "*"]).join(dict.fromkeys(atoms))
            add(f, "random", reads, "np")
    return out


REPRO_A = HEAD + """data = {data}
context = {ctx}
formula = {formula!r}
{get_rv}
cols = list(data.columns)
assert all(v in cols for v in rv), ('reported variable is not a data column', rv)
restricted = data[[c for c in cols if c in rv]]
{run}
"""
GET_BEFORE = "rv = sorted(str(v) for v in Formula(formula).required_variables)\nbuild = lambda d: model_matrix(formula, d, context=context)"
GET_AFTER = ("spec = model_matrix(formula, data, context=context).model_spec\nrv = sorted(str(v) for v in spec.required_variables)\n"
             "build = lambda d: spec.get_model_matrix(d, context=context)")
RUN_SUFF = "build(restricted)  # sufficiency: must not raise"
RUN_NEC = """for v in rv:
    try:
        build(restricted.drop(columns=[v]))
    except FactorEvaluationError:
        continue
    raise AssertionError(('not necessary / wrong error', v))"""


def check_required(b, counts, formula, kind, reads, ctxname, before_ok, extra_cols):
    from formulaic import Formula, model_matrix
    from formulaic.errors import FactorEvaluationError

    cols = [c for c in COLS if c in reads or c in extra_cols]
    data = frame(cols)
    context = ctx_of(ctxname)
    base = {"formula": formula, "kind": kind, "data_columns": cols, "context": ctxname}

    def run_phase(phase, get_src, get_rv, build):
        b.case(("required", phase, formula, tuple(cols), ctxname), nontrivial=len(reads) >= 2,
               sample={"formula": formula, "phase": phase, "columns": cols, "context": ctxname})

        def W(run):
            return dict(base, phase=phase, code=REPRO_A.format(data=frame_src(cols), ctx=CTX_SRC[ctxname], formula=formula, get_rv=get_src, run=run))

        try:
            rv = sorted(str(v) for v in get_rv())
        except Exception as e:  # outcome of the code under test
            _fail(b, counts, f"C17.required.{phase}.sufficient", f"{kind}:required_variables-raises-{type(e).__name__}", W(RUN_SUFF), f"{type(e).__name__}: {e}")
            return
        not_cols = [v for v in rv if v not in cols]
        if not_cols:
            _fail(b, counts, f"C17.required.{phase}.sufficient", f"{kind}:reports-non-column", W(RUN_SUFF),
                  f"required_variables = {rv}; {not_cols} are not data columns, so the data cannot be restricted to them (formula reads {list(reads)})")
            return
        restricted = data[[c for c in cols if c in rv]]
        try:
            build(restricted)
        except Exception as e:  # outcome of the code under test
            _fail(b, counts, f"C17.required.{phase}.sufficient", f"{kind}:restricted-data-fails", W(RUN_SUFF),
                  f"required_variables = {rv} but materializing on exactly those columns raised {type(e).__name__}: {e}")
            return
        for v in rv:
            try:
                build(restricted.drop(columns=[v]))
            except FactorEvaluationError:
                continue
            except Exception as e:  # outcome of the code under test
                _fail(b, counts, f"C17.required.{phase}.necessary", f"{kind}:other-error-{type(e).__name__}", W(RUN_NEC), f"without `{v}`: {type(e).__name__}: {e}")
                continue
            _fail(b, counts, f"C17.required.{phase}.necessary", f"{kind}:not-needed", W(RUN_NEC), f"required_variables = {rv} but materialization succeeds without `{v}`")

    if before_ok:
        run_phase("before", GET_BEFORE, lambda: Formula(formula).required_variables, lambda d: model_matrix(formula, d, context=context))
    try:
        spec = model_matrix(formula, data, context=context).model_spec
    except Exception:
        return  # not materializable on the full data: nothing to say about the materialized spec
    run_phase("after", GET_AFTER, lambda: spec.required_variables, lambda d: spec.get_model_matrix(d, context=context))
    # every data column that a factor evaluates is reported as a data variable of the materialized spec, and for
    # formulas whose free value-names are all data columns the set is the one reported before materialization
    # (kinds with a known, separately reported naming difference are left to the sufficiency clauses above)
    if kind not in ("attribute", "attribute-call", "column-named-like-transform"):
        code = (HEAD + f"data = {frame_src(cols)}\ncontext = {CTX_SRC[ctxname]}\nformula = {formula!r}\n"
                "spec = model_matrix(formula, data, context=context).model_spec\n"
                "after = sorted(str(v) for v in spec.required_variables)\n"
                "leaves = [spec] if hasattr(spec, 'variables_by_source') else list(spec._flatten())  # ModelSpecs: union over its parts\n"
                "by_source = sorted({str(v) for leaf in leaves for v in leaf.variables_by_source.get('data', ())})\n"
                f"assert after == by_source == {sorted(reads)!r}, (after, by_source)\n"
                + ("assert after == sorted(str(v) for v in Formula(formula).required_variables)\n" if before_ok else ""))
        w = dict(base, code=code)
        b.case(("reported", formula, tuple(cols), ctxname), nontrivial=len(reads) >= 2)
        try:
            after = sorted(str(v) for v in spec.required_variables)
            leaves = [spec] if hasattr(spec, "variables_by_source") else list(spec._flatten())  # ModelSpecs: union over its parts
            by_source = sorted({str(v) for leaf in leaves for v in leaf.variables_by_source.get("data", ())})
            before = sorted(str(v) for v in Formula(formula).required_variables) if before_ok else None
        except Exception as e:  # outcome of the code under test
            _fail(b, counts, "C17.required.after.reports-data-columns", f"{kind}:raises-{type(e).__name__}", w, f"{type(e).__name__}: {e}")
            return
        if after != sorted(reads) or by_source != sorted(reads):
            _fail(b, counts, "C17.required.after.reports-data-columns", kind, w,
                  f"the formula evaluates the data columns {sorted(reads)}; required_variables = {after}, variables_by_source['data'] = {by_source}")
        elif before is not None and before != after:
            _fail(b, counts, "C17.required.before-equals-after", kind, w, f"before materialization {before}, after {after}")


# ----------------------------------------------------------------------------- B. resolution order
DATA_VAL = [1.0, 2.0, 3.0, 5.0]
CTX_VAL = [10.0, 20.0, 30.0, 40.0]
XVAL = [1.0, 2.0, 4.0, 8.0]

HEAD_B = HEAD + ("import types\nfrom formulaic.utils.context import capture_context\n"
                 "from formulaic.utils.layered_mapping import LayeredMapping\n")

# How the caller hands its context over. Every style builds `mm` from `formula`, `data` and the context items
# (name -> python source of the value); the same generated source is executed by the driver and embedded in the replay.
STYLES = ("dict", "layered-unnamed", "layered-named", "layered-nested", "caller-locals", "caller-globals", "capture_context")


def style_source(style, items):
    """Source that defines `mm` (expects `formula`, `data` and the imports of HEAD_B)."""
    d = "{" + ", ".join(f"{k!r}: {v}" for k, v in items) + "}"
    if style == "dict":
        return f"mm = model_matrix(formula, data, context={d})\n"
    if style == "layered-unnamed":
        return f"mm = model_matrix(formula, data, context=LayeredMapping({d}))\n"
    if style == "layered-named":
        return f"mm = model_matrix(formula, data, context=LayeredMapping({d}, name='user'))\n"
    if style == "layered-nested":
        h = len(items) // 2
        d1 = "{" + ", ".join(f"{k!r}: {v}" for k, v in items[:h]) + "}"
        d2 = "{" + ", ".join(f"{k!r}: {v}" for k, v in items[h:]) + "}"
        return f"mm = model_matrix(formula, data, context=LayeredMapping(LayeredMapping({d2}), None, LayeredMapping({d1}), {{}}))\n"
    # the remaining styles capture the calling frame; a name whose value is the module global of the same name
    # (e.g. np) is left to the frame's globals
    assigns = [(k, v) for k, v in items if k != v]
    if style == "caller-locals":
        body = "".join(f"    {k} = {v}\n" for k, v in assigns)
        return f"def _caller(_formula, _data):\n{body}    return model_matrix(_formula, _data)\nmm = _caller(formula, data)\n"
    if style == "caller-globals":
        top = "".join(f"{k} = {v}\n" for k, v in assigns)
        return f"{top}def _caller(_formula, _data):\n    return model_matrix(_formula, _data)\nmm = _caller(formula, data)\n"
    if style == "capture_context":
        body = "".join(f"    {k} = {v}\n" for k, v in assigns)
        return (f"def _caller(_formula, _data):\n{body}    _captured = capture_context(0)\n"
                "    return Formula(_formula).get_model_matrix(_data, context=_captured)\nmm = _caller(formula, data)\n")
    raise AssertionError(style)


def run_style(style, formula, data, items):
    """Execute the generated source in a fresh namespace; returns (mm, source)."""
    import numpy as np
    import pandas as pd
    from formulaic import Formula, model_matrix
    from formulaic.utils.context import capture_context
    from formulaic.utils.layered_mapping import LayeredMapping

    src = style_source(style, items)
    import types

    env = {"np": np, "pd": pd, "types": types, "Formula": Formula, "model_matrix": model_matrix, "capture_context": capture_context,
           "LayeredMapping": LayeredMapping, "formula": formula, "data": pd.DataFrame(data)}
    exec(compile(src, "<c17-style>", "exec"), env)  # exceptions are outcomes of the code under test (the source is fixed text)
    return env["mm"], src


REPRO_B = HEAD_B + """data = pd.DataFrame({data!r})
formula = {formula!r}
{build}col = np.asarray(mm, dtype=float)[:, -1].tolist()
assert np.allclose(col, {want!r}, rtol=0, atol=1e-12), ('value came from the wrong layer', col)
src = {{str(v): k for k, vs in mm.model_spec.variables_by_source.items() for v in vs}}
assert str(src.get({var!r})).split(':')[0] == {layer!r}, ('reported source', src)
"""
REPRO_B_FAIL = HEAD_B + """data = pd.DataFrame({data!r})
formula = {formula!r}
try:
{build}except FactorEvaluationError:
    pass
else:
    raise AssertionError('the data column should shadow the callable of the same name')
"""


def check_resolution(b, counts):
    import numpy as np
    from formulaic.errors import FactorEvaluationError
    from formulaic.transforms import TRANSFORMS

    assert "log" in TRANSFORMS and "center" in TRANSFORMS and "n" not in TRANSFORMS  # driver self-check
    ctx_vec = f"np.array({CTX_VAL!r})"

    def judge(kind, formula, data, items, want, var, layer, tag, nontrivial):
        for style in STYLES:
            if tag.endswith(":T+ctx") and style in ("caller-locals", "caller-globals", "capture_context"):
                continue  # the generated calling frame has `np` among its globals, so there the context supplies it
            if style != "dict" and not items:
                continue  # nothing to hand over: all styles coincide
            if style in ("caller-locals", "caller-globals", "capture_context") and not all(k.isidentifier() for k, _ in items):
                continue  # a name that is not an identifier cannot be a variable of the calling frame
            b.case((kind, formula, tuple(sorted(data)), tuple(k for k, _ in items), style), nontrivial=nontrivial,
                   sample={"formula": formula, "context": [k for k, _ in items], "style": style})
            w = {"formula": formula, "name": var, "context_style": style, "context_names": [k for k, _ in items], "scenario": tag,
                 "code": REPRO_B.format(data=data, formula=formula, build=style_source(style, items), want=want, var=var, layer=layer)}
            try:
                mm, _ = run_style(style, formula, data, items)
                col = np.asarray(mm, dtype=float)[:, -1].tolist()
                src = {str(v): k for k, vs in mm.model_spec.variables_by_source.items() for v in vs}
            except Exception as e:  # outcome of the code under test
                _fail(b, counts, "C17.resolution.order", f"{tag.split(':')[0]}:{style}:raises-{type(e).__name__}", w, f"[{tag}] {type(e).__name__}: {e}")
                continue
            if not np.allclose(col, want, rtol=0, atol=1e-12):
                _fail(b, counts, "C17.resolution.order", f"{tag.split(':')[0]}:{style}", w, f"column {col}, expected {want} (value of `{var}` from `{layer}`)")
            elif str(src.get(var)).split(":")[0] != layer:
                _fail(b, counts, "C17.resolution.source-report", f"context-style:{style}", w,
                      f"[{tag}] `{var}` came from `{layer}` but variables_by_source says {src.get(var)!r} ({src})")

    # value-role names: (name, in_data, in_context); in_transforms is a property of the name
    uses = [("{n} - 1", "lookup"), ("I({n} * 1) - 1", "python-call"), ("{{{n} + 0}} - 1", "python-braces"), ("x:{n} - 1", "interaction")]
    for name in ("n", "log", "center", "my col", "a-b"):
        token = name if name.isidentifier() else f"`{name}`"  # non-identifier names are written back-ticked
        for in_data, in_ctx in ((1, 0), (0, 1), (1, 1)):
            for tmpl, how in uses:
                formula = tmpl.format(n=token)
                data = {"x": XVAL}
                if in_data:
                    data[name] = DATA_VAL
                items = [(name, ctx_vec), ("unrelated", "1.0")] if in_ctx else []
                layer = "data" if in_data else "context"
                vals = DATA_VAL if in_data else CTX_VAL
                want = [a * c for a, c in zip(XVAL, vals)] if how == "interaction" else list(vals)
                tag = f"value:{how}:{'D' if in_data else ''}{'C' if in_ctx else ''}{'T' if name in TRANSFORMS else ''}"
                judge("resolve-value", formula, data, items, want, name, layer, tag, in_data + in_ctx + (name in TRANSFORMS) >= 2)

    # callables: context overrides a built-in transform; built-in used otherwise; plain context function; dotted context object
    centered = [v - sum(XVAL) / 4 for v in XVAL]
    cfg = "type('Cfg', (), {'scale': 2.0})"
    cases = [
        ("center(x) - 1", [], centered, "center", "transforms", "callable:T"),
        ("center(x) - 1", [("center", "(lambda v: v * 0 + 7)")], [7.0] * 4, "center", "context", "callable:CT"),
        ("fn(x) - 1", [("fn", "(lambda v: v + 100)")], [v + 100 for v in XVAL], "fn", "context", "callable:C"),
        ("{cfg.scale * x} - 1", [("cfg", cfg)], [2 * v for v in XVAL], "cfg.scale", "context", "dotted:C"),
        ("np.log(x) - 1", [("np", "np")], [float(np.log(v)) for v in XVAL], "np.log", "context", "dotted-callable:C"),
        ("I(x * k) - 1", [("k", "3.0")], [3 * v for v in XVAL], "k", "context", "constant:C"),
        ("I(x * k) - 1", [("k", "3.0")], [3 * v for v in XVAL], "x", "data", "constant:C:data-side"),
        ("I(x * k) + fn(x) + np.sqrt(x) - 1", [("k", "3.0"), ("fn", "(lambda v: v + 100)"), ("np", "np")], [float(np.sqrt(v)) for v in XVAL], "fn", "context", "several:C"),
    ]
    # values and functions reached through 1, 2 and 3 attribute levels; the source is the layer that supplies the ROOT name
    ns = ("types.SimpleNamespace(k=3.0, fn=(lambda v: v + 1), inner=types.SimpleNamespace(k=5.0, fn=(lambda v: v + 2), "
          "deep=types.SimpleNamespace(k=7.0, fn=(lambda v: v + 3))))")
    sq = [float(np.sqrt(v)) for v in XVAL]
    cases += [
        # rooted in the caller's context
        ("{ns.k * x} - 1", [("ns", ns)], [3 * v for v in XVAL], "ns.k", "context", "attr1-value:C"),
        ("{ns.inner.k * x} - 1", [("ns", ns)], [5 * v for v in XVAL], "ns.inner.k", "context", "attr2-value:C"),
        ("{ns.inner.deep.k * x} - 1", [("ns", ns)], [7 * v for v in XVAL], "ns.inner.deep.k", "context", "attr3-value:C"),
        ("ns.fn(x) - 1", [("ns", ns)], [v + 1 for v in XVAL], "ns.fn", "context", "attr1-callable:C"),
        ("ns.inner.fn(x) - 1", [("ns", ns)], [v + 2 for v in XVAL], "ns.inner.fn", "context", "attr2-callable:C"),
        ("ns.inner.deep.fn(x) - 1", [("ns", ns)], [v + 3 for v in XVAL], "ns.inner.deep.fn", "context", "attr3-callable:C"),
        ("np.add.accumulate(x) - 1", [("np", "np")], np.cumsum(XVAL).tolist(), "np.add.accumulate", "context", "attr2-callable:CT"),
        ("np.lib.scimath.sqrt(x) - 1", [("np", "np")], sq, "np.lib.scimath.sqrt", "context", "attr3-callable:CT"),
        # rooted in the built-in transforms layer (`np` is also a built-in name; no context supplies it here)
        ("np.sqrt(x) - 1", [], sq, "np.sqrt", "transforms", "attr1-callable:T"),
        ("np.emath.sqrt(x) - 1", [], sq, "np.emath.sqrt", "transforms", "attr2-callable:T"),
        ("np.lib.scimath.sqrt(x) - 1", [], sq, "np.lib.scimath.sqrt", "transforms", "attr3-callable:T"),
        ("np.emath.sqrt(x) - 1", [("unrelated", "1.0")], sq, "np.emath.sqrt", "transforms", "attr2-callable:T+ctx"),
        # rooted in a data column (attributes of the column object)
        ("I(x.values * 2) - 1", [], [2 * v for v in XVAL], "x.values", "data", "attr1-value:D"),
        ("I(x.values.real * 2) - 1", [], [2 * v for v in XVAL], "x.values.real", "data", "attr2-value:D"),
        ("I(x.values.real.T * 2) - 1", [("unrelated", "1.0")], [2 * v for v in XVAL], "x.values.real.T", "data", "attr3-value:D"),
    ]
    for formula, items, want, var, layer, tag in cases:
        judge("resolve-callable", formula, {"x": XVAL}, items, want, var, layer, tag, True)

    # a data column shadows a callable of the same name (data first), so calling it cannot work
    for items in ([], [("center", "(lambda v: v * 0 + 7)")]):
        data = {"x": XVAL, "center": DATA_VAL}
        for style in STYLES:
            if style != "dict" and not items:
                continue
            b.case(("resolve-callable-shadowed", bool(items), style), nontrivial=True)
            build = "".join("    " + line + "\n" for line in style_source(style, items).splitlines())
            w = {"formula": "center(x) - 1", "context_style": style, "code": REPRO_B_FAIL.format(data=data, formula="center(x) - 1", build=build)}
            try:
                run_style(style, "center(x) - 1", data, items)
                _fail(b, counts, "C17.resolution.order", f"callable-shadowed-by-data:{style}", w, "center(x) evaluated although the data has a column `center` (data must win)")
            except FactorEvaluationError:
                pass
            except Exception as e:  # outcome of the code under test
                _fail(b, counts, "C17.resolution.order", f"callable-shadowed-by-data:{style}:raises-{type(e).__name__}", w, f"{type(e).__name__}: {e}")


# ----------------------------------------------------------------------------- C. '.' expansion
REPRO_C = HEAD + """from formulaic.parser import DefaultFormulaParser
data = pd.DataFrame({data!r})
{build}
rhs = [str(t) for t in terms]
assert rhs == {want!r}, (rhs, {want!r})
"""
BUILD_MM = ("mm = model_matrix({formula!r}, data, context={{'np': np}})\n"
            "spec = mm.model_spec if hasattr(mm.model_spec, 'terms') else mm.rhs.model_spec\nterms = spec.terms")
BUILD_FORMULA = ("f = Formula({formula!r}, _context={{'__formulaic_variables_available__': list(data.columns)}}{parser})\n"
                 "terms = list(f.rhs) if hasattr(f, 'rhs') else list(f)")


def check_dot(b, counts, rng, thorough):
    import numpy as np
    import pandas as pd
    from formulaic import Formula, model_matrix
    from formulaic.parser import DefaultFormulaParser

    base_cols = ["w", "y", "x", "my col", "z"]
    orders = [base_cols, ["z", "x", "y", "w", "my col"], ["y", "my col", "w"], ["x", "y"],
              ["Sepal.Length", "Sepal.Width", "Sepal", "w"], ["w", "Sepal", "y", "Sepal.Width", "Sepal.Length"]]
    if thorough:
        orders += [list(p) for p in itertools.islice(itertools.permutations(base_cols), 3, 120, 7)]
    # (formula template, lhs-used columns, extra rhs terms after the expansion, removed columns, intercept)
    forms = [
        ("y ~ .", ["y"], [], [], True),
        ("y + x ~ .", ["y", "x"], [], [], True),
        ("np.log(y) ~ .", ["y"], [], [], True),
        ("I(y + x) ~ .", ["y", "x"], [], [], True),
        ("`my col` ~ .", ["my col"], [], [], True),
        (".", [], [], [], True),
        ("~ .", [], [], [], True),
        ("y ~ . - x", ["y"], [], ["x"], True),
        ("y ~ . + x:y", ["y"], ["x:y"], [], True),
        ("y ~ 0 + .", ["y"], [], [], False),
        ("y ~ . - 1", ["y"], [], [], False),
        ("Sepal.Length ~ .", ["Sepal.Length"], [], [], True),
        ("`Sepal.Length` ~ .", ["Sepal.Length"], [], [], True),
        ("Sepal ~ .", ["Sepal"], [], [], True),
        ("Sepal.Width + w ~ .", ["Sepal.Width", "w"], [], [], True),
        ("np.log(w) ~ . - Sepal", ["w"], [], ["Sepal"], True),
    ]
    for cols in orders:
        data = {c: COLS[c][:4] for c in cols}
        df = pd.DataFrame(data)
        for formula, used, extra, removed, icpt in forms:
            if any(u not in cols for u in used + removed) or ("x:y" in extra and not {"x", "y"} <= set(cols)):
                continue
            want = (["1"] if icpt else []) + [c for c in cols if c not in used and c not in removed] + extra
            for entry in ("model_matrix", "Formula+available", "Formula+available+no-intercept-parser"):
                if entry.endswith("no-intercept-parser"):
                    if not icpt or formula in ("y ~ . - 1",):
                        continue
                    want_e = [t for t in want if t != "1"]
                else:
                    want_e = want
                b.case(("dot", formula, tuple(cols), entry), nontrivial=len(cols) > len(used) + 1,
                       sample={"formula": formula, "columns": cols, "entry": entry})
                parser_src = ", _parser=DefaultFormulaParser(include_intercept=False)" if entry.endswith("no-intercept-parser") else ""
                build = BUILD_MM.format(formula=formula) if entry == "model_matrix" else BUILD_FORMULA.format(formula=formula, parser=parser_src)
                w = {"formula": formula, "columns": cols, "entry": entry, "code": REPRO_C.format(data=data, build=build, want=want_e)}
                try:
                    if entry == "model_matrix":
                        mm = model_matrix(formula, df, context={"np": np})
                        spec = mm.model_spec if hasattr(mm.model_spec, "terms") else mm.rhs.model_spec
                        got = [str(t) for t in spec.terms]
                    else:
                        kw = {"_parser": DefaultFormulaParser(include_intercept=False)} if parser_src else {}
                        f = Formula(formula, _context={"__formulaic_variables_available__": list(cols)}, **kw)
                        got = [str(t) for t in (f.rhs if hasattr(f, "rhs") else f)]
                except Exception as e:  # outcome of the code under test
                    _fail(b, counts, "C17.dot.expansion", f"{entry}:raises-{type(e).__name__}", w, f"{type(e).__name__}: {e}")
                    continue
                if got != want_e:
                    cls = "order" if sorted(got) == sorted(want_e) else ("includes-lhs" if set(used) & set(got) else "terms")
                    _fail(b, counts, "C17.dot.expansion", f"{entry}:{cls}", w, f"rhs terms {got}, expected {want_e} (data columns {cols}, lhs uses {used})")


# -----------------------------------------------------------------------------
def run_bounded(ctx):
    _g.begin("C17", ctx)
    rng = random.Random(ctx.seed)
    counts = {}

    def rec(b):
        return lambda clause, cls, witness, detail: _fail(b, counts, clause, cls, witness, detail)

    with warnings.catch_warnings():
        warnings.simplefilter("ignore")
        with ctx.bounded(
            "required-variables",
            rule="formula templates (plain, two-sided, nested calls, python expressions, attribute access, quoted names, data columns "
                 "named like transforms, context constants, stateful transforms, keyword/positional/nested call arguments, dotted column names, back-ticked non-identifier names inside Python factors, single-level factors whose terms get zero columns, columns used only inside subscript indices) instantiated over ordered pairs of x,y,z (+ 40/400 seeded "
                 "random formulas) x 2 data column sets (exactly the read columns / plus unrelated columns) x "
                 "phase before/after; each case restricts the data to the reported set and then drops every reported column in turn; "
                 "non-trivial = the formula reads >= 2 columns",
            exhaustive=False,
            bound="names x,y,z,w,`my col`,log,center; <= 4 atoms per random formula",
        ) as b:
            for formula, kind, reads, ctxname, before_ok in formulas_a(rng, ctx.thorough):
                for extra in ((), ("unused1", "w")):
                    _g.guard(rec(b), check_required, b, counts, formula, kind, set(reads), ctxname, before_ok, extra)
        with ctx.bounded(
            "resolution-order",
            rule="every name in {n (no transform), log, center (built-in transforms), `my col`, `a-b` (not identifiers, back-ticked)} x presence in data/context (3 patterns) x 4 ways "
                 "of using a value (bare name, inside I(), inside {}, in an interaction), plus callables (built-in, context override, "
                 "context-only, values and functions behind 1/2/3 attribute levels rooted in context objects, the built-in `np` and data columns, constants, several at once) and a data column shadowing a callable; x 7 ways "
                 "of handing the context over (dict, LayeredMapping unnamed/named/nested, caller's locals and caller's globals through "
                 "the default model_matrix(...) frame capture, capture_context(0) + Formula.get_model_matrix); each layer supplies a "
                 "distinguishable value so the matrix shows where the value came from; the reported source is judged by its top-level "
                 "layer name; non-trivial = >= 2 layers define the name",
            exhaustive=True,
            bound="(5 names x 3 presence patterns x 4 usages + 25 callable/attribute cases) x 7 context-passing styles",
        ) as b:
            _g.guard(rec(b), check_resolution, b, counts)
        with ctx.bounded(
            "dot-expansion",
            rule="16 formulas with '.' (different left-hand sides incl. calls/expressions/quoted names/column names containing a dot next to their root, '.' alone, removal, extra "
                 "interaction, no intercept) x data column orders (6 quick / +17 permutations thorough) x 3 entry points "
                 "(model_matrix, Formula with __formulaic_variables_available__, same with the no-intercept parser); expected rhs = "
                 "[1] + data columns not used on the lhs in data order (+/- the written extras)",
            exhaustive=False,
            bound="columns <= 5",
        ) as b:
            _g.guard(rec(b), check_dot, b, counts, rng, ctx.thorough)
    ctx.assume(
        "C17-before: Formula.required_variables is only judged for formulas whose free value-names are all data columns (names living "
        "in the caller's context are documented to be reported until materialization resolves them)",
        "C17-necessity: tested with contexts that do not define the dropped name (otherwise the context legitimately supplies it)",
        "C17-Q: string-addressed lookups Q('name') are outside 'reference columns by name' and are not generated",
        "C17-origin: where a value 'actually came from' is decided by the numbers in the matrix (every layer supplies different numbers)",
        "C17-dot: all data columns are numeric, so each expanded term is exactly one column",
    )
