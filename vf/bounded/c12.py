"""C12 bounded stand-in: bs / cr / cc reproduce the bases they name.

The REAL transforms are run on (training vector, follow-up grid) pairs for a fully crossed list
of configurations and judged by `_stateful_spline_judge` against independent oracles in exact
rational arithmetic (`_stateful_oracles`: Cox-de Boor recursion on the *recorded* knot vector,
polynomial continuation outside the bounds by exact Lagrange interpolation, cardinal natural /
periodic interpolating cubic splines from the textbook second-moment equations).  In the thorough
tier the oracles themselves are cross-checked against scipy (BSpline.design_matrix, CubicSpline);
a disagreement there is a checker fault, not a violation."""
from __future__ import annotations

import inspect
import itertools
import math
import random
from collections import Counter

import numpy as np

from . import _stateful_oracles as O
from . import _stateful_spline_judge as J
from ._stateful_util import Reporter, WorkResult, chunked, code, fl, merge, pmap

MODES = ("raise", "clip", "na", "zero", "extend")


def _strip_future(src):
    return "\n".join(ln for ln in src.splitlines() if not ln.startswith("from __future__"))


_SRC = _strip_future(inspect.getsource(O)) + "\n\n" + _strip_future(inspect.getsource(J))

WITNESS = """
{src}

x_train = {x_train}
grid = {grid}
cfg = {cfg!r}
found = [f for f in {judge}(x_train, grid, cfg) if f[0] == {clause!r} and f[1] == {cls!r}]
assert not found, found
"""


def _witness(judge, x_train, grid, cfg, clause, cls):
    return code(WITNESS.format(src=_SRC, x_train=fl(x_train), grid=fl(grid), cfg=cfg, judge=judge, clause=clause,
                               cls=cls))


# ------------------------------------------------------------------------------------------
def _affine(v, a, s):
    return [a + s * t if not (isinstance(t, float) and math.isnan(t)) else t for t in v]


def _train_vectors(rng, n_random):
    """training vectors on the unit interval (mapped affinely later): a regular grid with ties, and seeded
    random vectors with ties and (optionally) nulls"""
    out = []
    grid = [i / 20 for i in range(21)] + [0.25, 0.25, 0.5, 1.0, 0.0]
    out.append(("grid+ties", grid))
    # top-/bottom-coded data: a large share of the observations sits exactly on the minimum / maximum, so that
    # quantile-derived interior knots coincide with the bounds
    inner = [round(0.05 + 0.9 * rng.random(), 3) for _ in range(10)]
    out.append(("coded-both", [0.0] * 7 + inner + [1.0] * 8))
    if n_random > 1:
        out.append(("coded-top", [0.0] + inner + [1.0] * 9))
        out.append(("coded-bottom", [0.0] * 9 + inner + [1.0]))
    for j in range(n_random):
        n = rng.randint(9, 30)
        v = [round(rng.random(), 3) for _ in range(n)]
        v += [rng.choice(v) for _ in range(rng.randint(0, 4))]
        v += [0.0, 1.0] if rng.random() < 0.5 else []
        v += [0.45, 0.5, 0.55]  # every bounds variant keeps some training values in range
        rng.shuffle(v)
        out.append((f"random{j}", v))
    return out


def _grid(lb, ub, knots):
    w = ub - lb
    pts = {lb, ub, lb + 0.5 * w, lb + w / 3, lb + 0.9 * w, lb + 1e-9 * w, ub - 1e-9 * w}
    for k in knots:
        pts.add(k)
        pts.add(k - 1e-6 * w)
        pts.add(k + 1e-6 * w)
    ks = sorted([lb, ub] + list(knots))
    for a, b in zip(ks, ks[1:]):
        pts.add((a + b) / 2)
    pts = sorted(p for p in pts if lb <= p <= ub)
    outside = [lb - 0.3 * w, lb - 1e-7 * w, ub + 1e-7 * w, ub + 0.5 * w, lb - 1.0 * w, ub + 1.0 * w, lb - 2.3 * w, ub + 1.7 * w]
    return pts + outside + [float("nan")]


# affine maps x = offset + scale * t of the unit-interval layouts: scales 1e-9 .. 1e6, offsets 0 / 1e3 / 1e6 / 1e9 times the
# scale (spacing tiny next to the magnitude: day ordinals, timestamps), plus two everyday ones
MAPS = [(0.0, 1.0), (-5.0, 10.0)] + [(c * sc, sc) for sc in (1e-9, 1e-3, 1.0, 1e3, 1e6) for c in (0.0, 1e3, 1e6, 1e9)
                                     if (c, sc) != (0.0, 1.0)] + [(738000.0, 49.0), (1.7e9, 3600.0)]


def _pairs(trains, maps, thorough, rot=0):
    """every training vector under 1 (quick) or 4 (thorough) affine maps; `rot` rotates through the map list from one
    configuration to the next, so that all maps are met by all kinds of configurations"""
    k = 4 if thorough else 1
    return [(t, maps[(rot + i * k + j) % len(maps)]) for i, t in enumerate(trains) for j in range(k)]


BS_KNOTS = ([0.5], [0.25, 0.5, 0.75], [0.5, 0.5], [0.3, 0.3, 0.3], [0.2, 0.4, 0.6, 0.8], [0.1, 0.1, 0.9],
            [0.5, "UB"], ["LB", 0.5], ["LB", "LB", 0.5, "UB"])  # "LB"/"UB": a breakpoint equal to the lower/upper bound
BOUNDS = {"data": (None, None), "wider": (-0.25, 1.5), "narrower": (0.2, 0.8), "narrow": (0.4, 0.6),
          "lower-only": (-0.25, None)}


def _bs_cases(rng, thorough):
    maps = MAPS
    trains = _train_vectors(rng, 4 if thorough else 1)
    cases = []
    for degree, icpt, (bname, (lb0, ub0)), mode in itertools.product(range(6), (False, True), BOUNDS.items(), MODES):
        specs = [("none", None)]
        base = degree + (1 if icpt else 0)
        specs += [("df", d) for d in sorted({base, base + 1, base + 3}) if d >= 1]
        specs += [("knots", k) for k in BS_KNOTS]
        for si, (skind, sval) in enumerate(specs):
          # the rotation ignores mode and intercept, so that those variants share data (and the exact-oracle cache)
          rot = 7 * degree + 3 * list(BOUNDS).index(bname) + (si if skind != "df" else 50 + sval - base)
          for (tname, tv), (a, s) in _pairs(trains, maps, thorough, rot):
            if skind == "none" and degree == 0 and not icpt:
                continue  # no columns at all
            kv = sval
            if skind == "knots":
                lo = lb0 if lb0 is not None else min(tv)
                hi = ub0 if ub0 is not None else max(tv)
                kv = [lo if k == "LB" else hi if k == "UB" else k for k in sval]
                if not all(lo <= k <= hi for k in kv):
                    continue  # breakpoints must lie within the bounds (they may coincide with them)
            x = list(tv)
            if tname.startswith("random") and rot % 2 == 0:
                # nulls in the TRAINING vector (every other configuration): knots from the non-null values, other rows unaffected
                x.insert(len(x) // 3, float("nan"))
                x.insert(0, float("nan"))
            cfg = {"degree": degree, "include_intercept": icpt, "extrapolation": mode,
                   "df": sval if skind == "df" else None,
                   "knots": _affine(kv, a, s) if skind == "knots" else None,
                   "lower_bound": None if lb0 is None else a + s * lb0,
                   "upper_bound": None if ub0 is None else a + s * ub0}
            xt = _affine(x, a, s)
            fin = [v for v in xt if not math.isnan(v)]
            lb = cfg["lower_bound"] if cfg["lower_bound"] is not None else min(fin)
            ub = cfg["upper_bound"] if cfg["upper_bound"] is not None else max(fin)
            if cfg["knots"] is not None and not all(lb < k < ub for k in cfg["knots"]):
                continue  # A-knots-input: breakpoints must be interior to the EFFECTIVE bounds (data range when a bound is None)
            g = _grid(lb, ub, cfg["knots"] or [])
            cases.append({"x": xt, "grid": g, "cfg": cfg, "tag": (bname, skind, tname, (a, s))})
    return cases


CUBIC_KNOTS = ([], [0.5], [0.3, 0.7], [0.2, 0.4, 0.6, 0.8], [0.05, 0.5, 0.55])
CUBIC_BOUNDS = {"data": (None, None), "wider": (-0.25, 1.5), "narrower": (0.2, 0.8)}


def _cubic_cases(rng, thorough):
    maps = MAPS
    trains = _train_vectors(rng, 4 if thorough else 1)
    if not thorough:  # the cubic transforms pick knots from the *distinct* values: coded vectors add little there
        trains = [t for t in trains if not t[0].startswith("coded")]
    cases = []
    for cyclic, centred, (bname, (lb0, ub0)), mode in itertools.product((False, True), (False, True),
                                                                        CUBIC_BOUNDS.items(), MODES):
        min_df = 1 if (cyclic or centred) else 2
        specs = [("df", d) for d in (min_df, min_df + 1, min_df + 2, min_df + 4)]
        specs += [("knots", k) for k in CUBIC_KNOTS]
        for (si, (skind, sval)), tm in itertools.product(enumerate(specs), range(len(trains) * (4 if thorough else 1))):
            (tname, tv), (a, s) = _pairs(trains, maps, thorough, 5 * si + 3 * list(CUBIC_BOUNDS).index(bname) + 11 * cyclic)[tm]
            if skind == "knots":
                lo = lb0 if lb0 is not None else 0.0
                hi = ub0 if ub0 is not None else 1.0
                if not all(lo < k < hi for k in sval):
                    continue
                nf = len(sval) + (1 if cyclic else 2) - (1 if centred else 0)
                if nf < 1:
                    continue  # no columns
            x = list(tv)
            if tname.startswith("random") and (si + list(CUBIC_BOUNDS).index(bname) + cyclic) % 2 == 0:
                x.insert(len(x) // 3, float("nan"))  # nulls in the training vector (also with the centering constraint)
                x.insert(0, float("nan"))
            cfg = {"cyclic": cyclic, "extrapolation": mode, "constraints": "center" if centred else None,
                   "df": sval if skind == "df" else None,
                   "knots": _affine(sval, a, s) if skind == "knots" else None,
                   "lower_bound": None if lb0 is None else a + s * lb0,
                   "upper_bound": None if ub0 is None else a + s * ub0}
            xt = _affine(x, a, s)
            fin = [v for v in xt if not math.isnan(v)]
            lb = cfg["lower_bound"] if cfg["lower_bound"] is not None else min(fin)
            ub = cfg["upper_bound"] if cfg["upper_bound"] is not None else max(fin)
            if cfg["knots"] is not None and not all(lb < k < ub for k in cfg["knots"]):
                continue  # A-knots-input: breakpoints must be interior to the EFFECTIVE bounds (data range when a bound is None)
            g = _grid(lb, ub, cfg["knots"] or [])
            cases.append({"x": xt, "grid": g, "cfg": cfg, "tag": (bname, skind, tname, (a, s))})
    return cases


def _grouped_chunks(cases, n_chunks):
    """contiguous chunks after sorting by (scenario, training vector): configurations that differ only in mode /
    intercept / constraint share their exact oracle rows through the judge's cache"""
    order = sorted(range(len(cases)), key=lambda i: (repr(cases[i]["tag"]), repr(cases[i]["cfg"].get("degree")),
                                                     repr(cases[i]["cfg"].get("knots")), repr(cases[i]["cfg"].get("df"))))
    size = max(1, -(-len(order) // n_chunks))
    return [[cases[i] for i in order[k:k + size]] for k in range(0, len(order), size)]


# make the oracle functions visible to the judge module (they are looked up as globals there, exactly as in the
# concatenated witness programs)
for _n in ("cox_de_boor", "bspline_extended", "cardinal_cubic", "_cdb_fraction"):
    setattr(J, _n, getattr(O, _n))


def _worker(args):
    which, cases = args
    judge = J.judge_bs if which == "bs" else J.judge_cubic
    jname = "judge_bs" if which == "bs" else "judge_cubic"
    res = WorkResult()
    for c in cases:
        cfg = c["cfg"]
        key = (which, tuple(sorted((k, repr(v)) for k, v in cfg.items())), tuple(repr(v) for v in c["x"]))
        res.case(key, True, {"transform": which if which == "bs" else ("cc" if cfg["cyclic"] else "cr"),
                             "cfg": {k: v for k, v in cfg.items() if v is not None}, "n_train": len(c["x"]),
                             "n_grid": len(c["grid"])})
        try:
            verdicts = judge(c["x"], c["grid"], cfg)
        except Exception as e:  # noqa: BLE001
            # The judge runs the transform and then feeds what it recorded / returned to the exact oracles.  An exception
            # here means the oracle could not be applied to the library's output (e.g. a non-numeric state); it is recorded
            # as a violation of the values clause (the witness re-runs the judge and fails the same way) and never kills
            # the pool.
            name = "bs" if which == "bs" else ("cc" if cfg["cyclic"] else "cr")
            verdicts = [(f"C12.{name}.values", f"oracle-not-applicable:{type(e).__name__}",
                         f"judging raised {type(e).__name__}: {e}"[:500])]
        for clause, cls, detail in verdicts:
            if clause.startswith("note:"):
                res.stats[("note", clause[5:] + "/" + cls)] += 1
                continue
            res.fail(clause, cls, {"x_train": c["x"], "grid": c["grid"], "cfg": cfg, "scenario": list(map(str, c["tag"])),
                                   "code": _witness(jname, c["x"], c["grid"], cfg, clause, cls)}, detail)
    return res.pack()


# ------------------------------------------------------------------------------------------
def _oracle_crosscheck(rng, n):
    """thorough tier: the exact oracles against scipy; a disagreement is a defect of this checker"""
    from scipy.interpolate import BSpline, CubicSpline

    for _ in range(n):
        deg = rng.randint(0, 5)
        inner = sorted(rng.choice([0.5, 1, 1.5, 2, 2.5, 3]) for _ in range(rng.randint(0, 4)))
        t = [0.0] * (deg + 1) + inner + [3.5] * (deg + 1)
        xs = [0.0, 3.5] + inner + [rng.uniform(0, 3.5) for _ in range(4)]
        D = BSpline.design_matrix(np.array(xs), np.array(t), deg).toarray()
        for i, x in enumerate(xs):
            o = np.array([float(v) for v in O.cox_de_boor(t, deg, x)])
            if np.abs(o - D[i]).max() > 1e-12:
                raise RuntimeError(f"oracle cox_de_boor disagrees with scipy at {t}, {deg}, {x}")
        k = sorted({round(rng.uniform(0, 10), 2) for _ in range(rng.randint(3, 7))})
        if len(k) >= 3:
            k = np.array(k)
            for per in (False, True):
                nf = len(k) - 1 if per else len(k)
                for x in list(k) + [rng.uniform(k[0], k[-1]) for _ in range(3)]:
                    o = [float(v) for v in O.cardinal_cubic(k, x, per)]
                    for j in range(nf):
                        y = np.zeros(len(k))
                        y[j] = 1
                        if per and j == 0:
                            y[-1] = 1
                        ref = float(CubicSpline(k, y, bc_type="periodic" if per else "natural")(x))
                        if abs(ref - o[j]) > 1e-9:
                            raise RuntimeError(f"oracle cardinal_cubic disagrees with scipy at {k}, {x}, {per}")


FORMULA_WITNESS = """
import numpy as np, pandas as pd
from formulaic import model_matrix
from formulaic.transforms import basis_spline
from formulaic.transforms.cubic_spline import cyclic_cubic_spline, natural_cubic_spline
x = {x}
mm = model_matrix({formula!r}, pd.DataFrame({{"x": x}}), context={{}})
direct = {direct}(np.array(x), **{kwargs!r}, _state={{}})
cols = [np.asarray(direct[k], dtype=float) for k in direct]
assert mm.shape[1] == {df}, (list(mm.columns), "expected df = {df} columns")
assert list(mm.columns) == [{term!r} + "[%s]" % k for k in direct], list(mm.columns)
assert np.allclose(np.asarray(mm, dtype=float), np.column_stack(cols), rtol=1e-12, atol=1e-14, equal_nan=True)
"""


def _formula_surface(ctx, b, rep, rng, n):
    """the names bs/cr/cs/cc inside formulas are the judged transforms: df columns, named term[i], same values"""
    import pandas as pd
    from formulaic import model_matrix
    from formulaic.transforms import basis_spline
    from formulaic.transforms.cubic_spline import cyclic_cubic_spline, natural_cubic_spline

    direct = {"bs": (basis_spline, "basis_spline"), "cr": (natural_cubic_spline, "natural_cubic_spline"),
              "cs": (natural_cubic_spline, "natural_cubic_spline"), "cc": (cyclic_cubic_spline, "cyclic_cubic_spline")}
    for i in range(n):
        x = [round(rng.uniform(-3, 7), 3) for _ in range(rng.randint(12, 30))]
        name = rng.choice(list(direct))
        if name == "bs":
            degree = rng.randint(0, 5)
            icpt = rng.random() < 0.5
            df = degree + (1 if icpt else 0) + rng.randint(0, 3)
            if df < 1:
                continue
            kwargs = {"df": df, "degree": degree, "include_intercept": icpt}
        else:
            df = rng.randint(4, 7)
            kwargs = {"df": df}
            if rng.random() < 0.5:
                kwargs["constraints"] = "center"
        term = f"{name}(x, " + ", ".join(f"{k}={v!r}" for k, v in kwargs.items()) + ")"
        formula = term + " - 1"
        b.case(("formula", formula, tuple(x)), True, {"formula": formula, "n": len(x)})
        w = {"formula": formula, "x": x,
             "code": code(FORMULA_WITNESS.format(x=fl(x), formula=formula, direct=direct[name][1], kwargs=kwargs, df=df,
                                                 term=term))}
        try:
            mm = model_matrix(formula, pd.DataFrame({"x": x}), context={})
            d = direct[name][0](np.array(x), **kwargs, _state={})
            cols = [np.asarray(d[k], dtype=float) for k in d]
            ok = (mm.shape[1] == df and list(mm.columns) == [f"{term}[{k}]" for k in d]
                  and np.allclose(np.asarray(mm, dtype=float), np.column_stack(cols), rtol=1e-12, atol=1e-14, equal_nan=True))
            detail = "" if ok else f"columns {list(mm.columns)} (df={df})"
        except Exception as e:  # noqa: BLE001 - outcome of the code under test
            ok, detail = False, f"{type(e).__name__}: {e}"
        if not ok:
            rep.fail(f"C12.{name if name != 'cs' else 'cr'}.columns", "formula:" + name, w, detail)


def run_bounded(ctx):
    rng = random.Random(ctx.seed * 1000003 + 12)
    thorough = ctx.thorough
    if not ctx.explanation:
        ctx.explanation = ("bounded stand-in: bs/cr/cc run on enumerated configurations and judged against exact "
                           "Cox-de Boor / cardinal cubic spline oracles on the recorded knot vector")
    ctx.assume(
        "A-float(C12): values compared with abs tolerance 1e-10*(1+max|row|) inside the bounds (bs), 1e-9 (cubic: linear "
        "solves), 1e-8 relative to the largest entry for polynomial continuation outside the bounds",
        "A-zero-mode(C12): extrapolation='zero' is read as 'the basis row of an out-of-range value is all zeros'",
        "A-knots-input(C12): explicit breakpoints are given sorted and within the bounds (they may equal a bound); at "
        "a bound that carries such a tied knot the value AT the bound may follow either boundary convention and "
        "'extend' beyond it is not judged (counted in the notes); df >= its documented "
        "minimum; rows of null inputs are not judged (other rows must be unaffected)",
        "A-extend-cubic(C12): 'extend' for cr = linear continuation of the natural spline, for cc = periodic wrap",
    )
    if thorough:
        _oracle_crosscheck(random.Random(ctx.seed + 99), 150)
        ctx.trust("oracles cox_de_boor/cardinal_cubic cross-checked against scipy BSpline.design_matrix/CubicSpline (150 draws)")

    with ctx.bounded(
        "bs",
        rule="degree 0..5 x {no knots, df in {min, min+1, min+3}, 6 explicit knot lists incl. double/triple ties} x bounds "
             "{from data, wider, narrower than data (2 widths), lower only} x include_intercept x 5 extrapolation modes x training "
             "vectors x affine maps; each = fit + replay on a grid (knots, knots+-1e-6, bounds, bounds+-1e-7/-9, "
             "midpoints, far outside, NaN); distinct = (configuration, training vector)",
        bound="configurations fully crossed; " + ("8 training vectors (grid with ties, top-/bottom-/both-coded, random) x 4 affine maps each" if thorough else "3 training vectors (grid with ties, both-coded, random), one affine map each") + "; maps x = c*s + s*t rotate through scales s in 1e-9..1e6 x offsets c in {0, 1e3, 1e6, 1e9} (+ day-ordinal / timestamp like ones) from one configuration to the next",
    ) as b:
        rep = Reporter(ctx, b)
        cases = _bs_cases(rng, thorough)
        notes = Counter()
        merge(b, rep, pmap(_worker, [("bs", ch) for ch in _grouped_chunks(cases, 64)]), notes)
        for k, v in sorted(notes.items()):
            if k[0] == "note" and "knot-vector" in k[1]:
                ctx.notes.append(f"bounded:bs: NOT judged as violation, {v} configuration(s): {k[1]} (the recorded knot "
                                 "vector is not non-decreasing because quantile knots of the data fall outside the explicit "
                                 "bounds; design-matrix equality is undefined there, the other clauses were still judged)")
            elif k[0] == "note":
                ctx.notes.append(f"bounded:bs: NOT judged, {v} configuration(s): {k[1]}")
        rep.close()

    with ctx.bounded(
        "cubic",
        rule="{cr, cc} x {df in {min..min+2, min+4}, 5 explicit inner-knot lists} x bounds {data, wider, narrower} x "
             "constraints {none, 'center'} x 5 extrapolation modes x training vectors x affine maps; fit + replay on a "
             "grid containing the recorded knots (identity rows); distinct = (configuration, training vector)",
        bound="configurations fully crossed; " + ("8 training vectors x 4 affine maps each" if thorough else "2 training vectors, one affine map each") + "; the same rotating map grid as for bs",
    ) as b:
        rep = Reporter(ctx, b)
        cases = _cubic_cases(rng, thorough)
        merge(b, rep, pmap(_worker, [("cubic", ch) for ch in _grouped_chunks(cases, 64)]))
        rep.close()

    with ctx.bounded(
        "spline-formula-surface",
        rule="model_matrix('<bs|cr|cs|cc>(x, df=.., ...) - 1'): df columns named term[i] with the values of the directly "
             "called (judged) transform; distinct = (formula, vector)",
        bound="%d generated formulas" % (300 if thorough else 60),
    ) as b:
        rep = Reporter(ctx, b)
        _formula_surface(ctx, b, rep, rng, 300 if thorough else 60)
        rep.close()
