"""Contract judges for C12 (bs / cr / cc), shared by the driver and by the witness programs: the
source text of this module and of `_stateful_oracles` is concatenated into every witness, so
everything here is self-contained (imports inside the functions; the oracle functions
`cox_de_boor`, `bspline_extended`, `cardinal_cubic` are expected in the same namespace).

A judge runs the REAL transform on (training vector, follow-up grid) for one configuration and
returns a list of `(clause, cls, detail)`; empty list = contract met."""
from __future__ import annotations


def _spline_expected_row(kind, knots, degree, include_intercept, lb, ub, mode, x, periodic=False):
    """Expected basis row at x for the documented extrapolation `mode`.
    Returns ("values", [floats]) | ("nan", None) | ("zero", None)."""
    cache = _spline_expected_row.__dict__.setdefault("_cache", {})  # exact rows are reused across modes / options
    if len(cache) > 100000:
        cache.clear()

    def basis(v):
        key = (kind, tuple(knots), degree, v, periodic, lb, ub)
        if key not in cache:
            if kind == "bs":
                inside = lb <= v <= ub
                row = cox_de_boor(knots, degree, v) if inside else bspline_extended(knots, degree, v)
            else:
                row = cardinal_cubic(knots, v, periodic)
            cache[key] = [float(a) for a in row]
        row = cache[key]
        return row if (include_intercept or kind != "bs") else row[1:]

    if lb <= x <= ub:
        return ("values", basis(x))
    if mode == "clip":
        return ("values", basis(min(max(x, lb), ub)))
    if mode == "na":
        return ("nan", None)
    if mode == "zero":
        return ("zero", None)
    if mode == "extend":
        return ("values", basis(x))
    raise AssertionError("mode raise has no row")


def _rows_of(result):
    import numpy as np

    keys = list(result.keys()) if isinstance(result, dict) else None
    if keys is None:
        raise AssertionError("transform did not return a dict of columns")
    cols = [np.asarray(result[k], dtype=float) for k in keys]
    M = np.column_stack(cols) if cols else np.zeros((0, 0))
    return keys, M


def judge_bs(x_train, grid, cfg, tol=1e-10):
    """cfg: degree, df, knots, include_intercept, lower_bound, upper_bound, extrapolation."""
    import math
    import warnings

    import numpy as np
    from formulaic.transforms import basis_spline

    out = []
    degree, mode, icpt = cfg["degree"], cfg["extrapolation"], cfg["include_intercept"]
    kwargs = {"degree": degree, "include_intercept": icpt, "extrapolation": mode}
    for k in ("df", "knots", "lower_bound", "upper_bound"):
        if cfg.get(k) is not None:
            kwargs[k] = cfg[k]
    finite = [v for v in x_train if not math.isnan(v)]
    lb = cfg["lower_bound"] if cfg.get("lower_bound") is not None else min(finite)
    ub = cfg["upper_bound"] if cfg.get("upper_bound") is not None else max(finite)

    def call(x, state):
        with warnings.catch_warnings():
            warnings.simplefilter("ignore", RuntimeWarning)
            with np.errstate(all="ignore"):
                return basis_spline(np.array(x, dtype=float), _state=state, **kwargs)

    def outside(x):
        return [v for v in x if not math.isnan(v) and (v < lb or v > ub)]

    if not [v for v in finite if lb <= v <= ub]:
        return out  # no training value in range: the transforms document a refusal for df-derived knots; not judged

    # ---- fit
    st = {}
    x_fit = list(x_train)
    try:
        r = call(x_fit, st)
        if mode == "raise" and outside(x_fit):
            out.append(("C12.bs.extrapolation", "raise:no-error-on-fit",
                        f"values {outside(x_fit)[:3]} outside [{lb}, {ub}] were accepted with extrapolation='raise'"))
            return out
    except ValueError as e:
        if mode == "raise" and outside(x_fit):
            # documented; continue with the in-range part so that the rest of the contract is exercised
            x_fit = [v for v in x_fit if math.isnan(v) or lb <= v <= ub]
            if not [v for v in x_fit if not math.isnan(v)]:
                return out
            st = {}
            try:
                r = call(x_fit, st)
            except Exception as e2:  # noqa: BLE001
                out.append(("C12.bs.values", "fit-raises-" + type(e2).__name__, f"{type(e2).__name__}: {e2}"))
                return out
        else:
            out.append(("C12.bs.values", "fit-raises-ValueError", f"ValueError: {e}"))
            return out
    except Exception as e:  # noqa: BLE001
        out.append(("C12.bs.values", "fit-raises-" + type(e).__name__, f"{type(e).__name__}: {e}"))
        return out

    knots = [float(k) for k in st.get("knots", [])]
    # ---- recorded knot vector: what the statement calls "its recorded knot vector"
    if not knots or not all(math.isfinite(k) for k in knots):
        out.append(("C12.bs.knot-vector", "non-finite" + (":nulls-in-training" if len(finite) < len(x_train) else ""),
                    f"recorded knot vector {knots} is not a knot vector (bounds {lb}, {ub})"))
        return out
    n_inner = (cfg["df"] - degree - (1 if icpt else 0)) if cfg.get("df") is not None else len(cfg.get("knots") or [])
    nb = len(knots) - degree - 1  # number of basis functions incl. the intercept one
    valid = True
    if len(knots) != n_inner + 2 + 2 * degree:
        out.append(("C12.bs.knot-vector", "length", f"recorded {len(knots)} knots, expected {n_inner + 2 + 2 * degree}"))
        valid = False
    elif knots[: degree + 1] != [float(lb)] * (degree + 1) or knots[-degree - 1:] != [float(ub)] * (degree + 1):
        out.append(("C12.bs.knot-vector", "boundary-multiplicity",
                    f"boundary knots of {knots} are not {degree + 1} copies of the bounds ({lb}, {ub})"))
        valid = False
    elif any(b < a for a, b in zip(knots, knots[1:])):
        # For df-derived knots this happens when the quantiles of the data fall outside explicit bounds.  The
        # statement's equality is then undefined rather than false; reported as a note ("note:" entries are counted
        # by the driver, not raised as violations); the directly stated clauses are still judged below.
        cls = "df-knots-outside-bounds:" + mode if cfg.get("df") is not None else "not-sorted"
        out.append(("note:C12.bs.knot-vector" if cfg.get("df") is not None else "C12.bs.knot-vector", cls,
                    f"recorded knot vector {knots} is not non-decreasing (bounds {lb}, {ub}); no B-spline basis exists on it"))
        valid = False
    elif cfg.get("knots") is not None and knots[degree + 1: len(knots) - degree - 1] != [float(k) for k in cfg["knots"]]:
        out.append(("C12.bs.knot-vector", "explicit-knots-not-recorded", f"recorded {knots}, given {cfg['knots']}"))
        valid = False

    out_notes = set()

    def judge_rows(x, res, phase):
        keys, M = _rows_of(res)
        exp_keys = list(range(0 if icpt else 1, nb))
        if keys != exp_keys:
            out.append(("C12.bs.columns", phase + ":keys", f"columns {keys}, expected {exp_keys}"))
            return
        if cfg.get("df") is not None and len(keys) != cfg["df"]:
            out.append(("C12.bs.columns", phase + ":df", f"{len(keys)} columns for df={cfg['df']}"))
        if M.shape[0] != len(x):
            out.append(("C12.bs.columns", phase + ":rows", f"{M.shape[0]} rows for {len(x)} inputs"))
            return
        seen = set()
        for i, v in enumerate(x):
            if math.isnan(v):
                continue
            row = M[i]
            inside = lb <= v <= ub
            if inside:
                # stated directly: non-negative, sums to one (with the intercept column)
                if not (row >= -1e-13).all():
                    c = ("C12.bs.partition-of-unity", phase + ":negative")
                    if c not in seen:
                        seen.add(c)
                        out.append((*c, f"x={v!r}: row {row.tolist()} has negative entries"))
                if icpt and not abs(float(row.sum()) - 1.0) <= 1e-12:
                    c = ("C12.bs.partition-of-unity", phase + ":sum")
                    if c not in seen:
                        seen.add(c)
                        out.append((*c, f"x={v!r}: row sums to {float(row.sum())!r}"))
            if not valid:
                continue
            if mode == "extend" and not inside and valid and (
                    (v > ub and knots.count(float(ub)) > degree + 1) or (v < lb and knots.count(float(lb)) > degree + 1)):
                # an interior knot is tied to the bound that is crossed: the polynomial pieces "of the last interval"
                # live on a zero-width interval, so which polynomials are to be continued is not defined; not judged
                out_notes.add("extend-beyond-a-bound-with-a-tied-interior-knot")
                continue
            kind, exp = _spline_expected_row("bs", knots, degree, icpt, lb, ub, mode, v)
            where = "inside" if inside else (mode + (":below" if v < lb else ":above"))
            if v in (lb, ub):
                where = "boundary"
            if kind == "nan":
                # 'set to numpy.nan': the observation must come out as missing.  Only "at least one entry of the row
                # is NaN" is demanded (that is what makes the materializer treat the row as null); columns that are
                # identically zero there are tolerated.
                ok = bool(np.isnan(row).any())
                detail = f"x={v!r} outside [{lb}, {ub}] with extrapolation='na': row {row.tolist()} has no missing entry"
            elif kind == "zero":
                ok = bool((row == 0).all())
                detail = f"x={v!r} outside [{lb}, {ub}] with extrapolation='zero': row {row.tolist()} is not all-zero"
            else:
                e = np.array(exp)
                scale = 1.0 + float(np.abs(e).max()) if len(e) else 1.0
                # outside the base interval the extended polynomials grow like (distance/knot spacing)^degree and are
                # formed by cancellation: allow a relative 1e-8 of the largest entry there
                t = tol * scale if inside or mode == "clip" else 1e-8 * scale
                ok = row.shape == e.shape and bool((np.abs(row - e) <= t).all())
                v_eff = min(max(v, lb), ub) if mode == "clip" else v
                m_hi = knots.count(float(ub))
                if not ok and v_eff == ub and ub > lb and m_hi > degree + 1:
                    # interior knot(s) coincide with the upper bound: the value AT the bound is a matter of convention
                    # (left limit as in the oracle; all mass on the last basis function as R / scipy do; ...): accept
                    # the unit vector on any of the basis functions whose knots end in the tied block
                    for j in range(nb - (m_hi - degree), nb):
                        u = np.zeros(nb)
                        u[j] = 1.0
                        u = u if icpt else u[1:]
                        if row.shape == u.shape and bool((np.abs(row - u) <= t).all()):
                            ok = True
                detail = f"x={v!r} ({where}): row {row.tolist()} expected {exp}"
            if not ok:
                clause = "C12.bs.values" if inside else "C12.bs.extrapolation"
                c = (clause, phase + ":" + where + (":degree0" if degree == 0 else ""))
                if c not in seen:
                    seen.add(c)
                    out.append((*c, detail))

    judge_rows(x_fit, r, "fit")

    # ---- replay on the grid (plus the recorded knots themselves) with the recorded state
    grid = list(grid) + (sorted(set(knots)) if valid else [])
    g_out = outside(grid)
    snapshot = repr(st)
    try:
        r2 = call(grid, st)
        if mode == "raise" and g_out:
            out.append(("C12.bs.extrapolation", "raise:no-error-on-replay",
                        f"values {g_out[:3]} outside [{lb}, {ub}] were accepted with extrapolation='raise'"))
        else:
            judge_rows(grid, r2, "replay")
    except ValueError as e:
        if not (mode == "raise" and g_out):
            out.append(("C12.bs.values", "replay-raises-ValueError", f"ValueError: {e}"))
        else:
            g2 = [v for v in grid if math.isnan(v) or lb <= v <= ub]
            try:
                judge_rows(g2, call(g2, st), "replay")
            except Exception as e2:  # noqa: BLE001
                out.append(("C12.bs.values", "replay-raises-" + type(e2).__name__, f"{type(e2).__name__}: {e2}"))
    except Exception as e:  # noqa: BLE001
        out.append(("C12.bs.values", "replay-raises-" + type(e).__name__, f"{type(e).__name__}: {e}"))
    if repr(st) != snapshot:
        out.append(("C12.bs.knot-vector", "state-changed-on-replay", f"{snapshot} -> {st!r}"))
    for n in sorted(out_notes):
        out.append(("note:C12.bs.extrapolation", n, "not judged"))
    return out


def _judge_cubic(x_train, grid, cfg, tol=1e-9):
    """cfg: cyclic, df, knots, lower_bound, upper_bound, constraints (None|'center'), extrapolation."""
    import math
    import warnings

    import numpy as np
    from formulaic.transforms.cubic_spline import cyclic_cubic_spline, natural_cubic_spline

    out = []
    cyclic, mode, centred = cfg["cyclic"], cfg["extrapolation"], cfg.get("constraints") == "center"
    fn = cyclic_cubic_spline if cyclic else natural_cubic_spline
    name = "cc" if cyclic else "cr"
    kwargs = {"extrapolation": mode}
    for k in ("df", "knots", "lower_bound", "upper_bound", "constraints"):
        if cfg.get(k) is not None:
            kwargs[k] = cfg[k]
    finite = [v for v in x_train if not math.isnan(v)]
    lb = cfg["lower_bound"] if cfg.get("lower_bound") is not None else min(finite)
    ub = cfg["upper_bound"] if cfg.get("upper_bound") is not None else max(finite)

    def call(x, state):
        with warnings.catch_warnings():
            warnings.simplefilter("ignore", RuntimeWarning)
            with np.errstate(all="ignore"):
                return fn(np.array(x, dtype=float), _state=state, **kwargs)

    def outside(x):
        return [v for v in x if not math.isnan(v) and (v < lb or v > ub)]

    if not [v for v in finite if lb <= v <= ub]:
        return out  # no training value in range: not judged

    st = {}
    x_fit = list(x_train)
    try:
        r = call(x_fit, st)
        if mode == "raise" and outside(x_fit):
            out.append((f"C12.{name}.extrapolation", "raise:no-error-on-fit",
                        f"values {outside(x_fit)[:3]} outside [{lb}, {ub}] were accepted with extrapolation='raise'"))
            return out
    except ValueError as e:
        if mode == "raise" and outside(x_fit):
            x_fit = [v for v in x_fit if math.isnan(v) or lb <= v <= ub]
            st = {}
            try:
                r = call(x_fit, st)
            except Exception as e2:  # noqa: BLE001
                out.append((f"C12.{name}.values", "fit-raises-" + type(e2).__name__, f"{type(e2).__name__}: {e2}"))
                return out
        else:
            out.append((f"C12.{name}.values", "fit-raises-ValueError", f"ValueError: {e}"))
            return out
    except Exception as e:  # noqa: BLE001
        out.append((f"C12.{name}.values", "fit-raises-" + type(e).__name__, f"{type(e).__name__}: {e}"))
        return out

    knots = [float(k) for k in st.get("knots", [])]
    nf = len(knots) - 1 if cyclic else len(knots)  # size of the cardinal basis
    ncols = nf - (1 if centred else 0)
    if not knots or not all(math.isfinite(k) for k in knots):
        out.append((f"C12.{name}.knot-vector", "non-finite" + (":nulls-in-training" if len(finite) < len(x_train) else ""),
                    f"recorded knots {knots} are not a knot vector (bounds {lb}, {ub})"))
        return out
    if len(knots) < 2 or any(b <= a for a, b in zip(knots, knots[1:])) or knots[0] != float(lb) or knots[-1] != float(ub):
        out.append((f"C12.{name}.knot-vector", "not-increasing-from-lb-to-ub", f"recorded knots {knots}, bounds ({lb}, {ub})"))
        return out
    if cfg.get("knots") is not None and knots[1:-1] != sorted(set(float(k) for k in cfg["knots"])):
        out.append((f"C12.{name}.knot-vector", "explicit-knots-not-recorded", f"recorded {knots}, given {cfg['knots']}"))
        return out

    def cardinal(x):
        return np.array([[float(a) for a in cardinal_cubic(knots, v, cyclic)] for v in x]).reshape(len(x), nf)

    Z = [None]

    def judge_rows(x, res, phase):
        keys, M = _rows_of(res)
        if keys != list(range(1, ncols + 1)):
            out.append((f"C12.{name}.columns", phase + ":keys", f"columns {keys}, expected 1..{ncols}"))
            return
        if cfg.get("df") is not None and len(keys) != cfg["df"]:
            out.append((f"C12.{name}.columns", phase + ":df", f"{len(keys)} columns for df={cfg['df']}"))
        if M.shape[0] != len(x):
            out.append((f"C12.{name}.columns", phase + ":rows", f"{M.shape[0]} rows for {len(x)} inputs"))
            return
        idx = [i for i, v in enumerate(x) if not math.isnan(v)]
        ins = [i for i in idx if lb <= x[i] <= ub]
        if centred and phase == "fit":
            # stated directly: zero mean of every column on the training data
            # rows of out-of-range training values are missing under 'na' (the materializer drops them): the mean is
            # then taken over the rows that remain
            rows = M[ins] if mode == "na" else M[idx]
            if len(idx) < len(x) and len(ins) and np.isnan(M[ins]).any():
                # nulls among the training values: their own rows are missing, every other row must be unaffected
                out.append((f"C12.{name}.centering", "fit:nulls-in-training:rows-of-non-null-values-are-missing",
                            f"{int(np.isnan(M[ins]).any(axis=1).sum())} of {len(ins)} rows of non-null in-range training "
                            "values contain NaN"))
                return
            if len(rows) and not bool((np.abs(rows.mean(axis=0)) <= 1e-10 * (1 + np.abs(rows).max())).all()):
                cls = "fit:column-means"
                if len(idx) < len(x):
                    cls += ":nulls-in-training"
                if mode in ("zero", "na") and outside(x):
                    cls += ":" + mode + "-mode-with-training-values-outside-bounds"
                out.append((f"C12.{name}.centering", cls,
                            f"column means on the training data {rows.mean(axis=0).tolist()}"))
            # the constrained columns must be combinations of the cardinal basis (same spline space)
            B = cardinal([x[i] for i in ins])
            if len(ins) and np.linalg.matrix_rank(B) == nf:
                Zl, *_ = np.linalg.lstsq(B, M[ins], rcond=None)
                if not bool((np.abs(B @ Zl - M[ins]) <= tol * (1 + np.abs(M[ins]).max())).all()):
                    out.append((f"C12.{name}.centering", "fit:not-in-cardinal-span"
                                + (f":{mode}-mode-with-training-values-outside-bounds" if mode in ("zero", "na") and outside(x) else ""),
                                "centred columns are not linear combinations of the cardinal basis on the recorded knots"))
                else:
                    Z[0] = Zl
            return
        seen = set()
        for i in idx:
            v, row = x[i], M[i]
            inside = lb <= v <= ub
            kind, exp = _spline_expected_row("cubic", knots, 3, True, lb, ub, mode, v, periodic=cyclic)
            where = "inside" if inside else (mode + (":below" if v < lb else ":above"))
            if any(v == k for k in knots):
                where = "at-knot"
            if kind == "nan":
                ok = bool(np.isnan(row).any())
                detail = f"x={v!r} outside [{lb}, {ub}] with extrapolation='na': row {row.tolist()} has no missing entry"
            elif kind == "zero":
                ok = bool((row == 0).all())
                detail = f"x={v!r} outside [{lb}, {ub}] with extrapolation='zero': row {row.tolist()} is not all-zero"
            else:
                e = np.array(exp)
                if centred:
                    if Z[0] is None:
                        continue
                    e = e @ Z[0]
                scale = 1.0 + float(np.abs(e).max())
                # the transform locates / wraps x in floating point: a position error of one ulp of |x| moves the value by
                # about |basis'| * ulp ~ eps * max|x| / (smallest knot spacing); allowed on top of the solver tolerance
                cond = 64 * 2.220446049250313e-16 * max(abs(lb), abs(ub), abs(v)) / min(b - a for a, b in zip(knots, knots[1:]))
                ok = row.shape == e.shape and bool((np.abs(row - e) <= (tol + cond) * scale).all())
                detail = f"x={v!r} ({where}): row {row.tolist()} expected {e.tolist()}"
            if not ok:
                clause = f"C12.{name}.values" if inside else f"C12.{name}.extrapolation"
                c = (clause, phase + ":" + where + (":centred" if centred else ""))
                if c not in seen:
                    seen.add(c)
                    out.append((*c, detail))

    judge_rows(x_fit, r, "fit")
    grid = list(grid) + knots  # identity at the knots
    g_out = outside(grid)
    snapshot = repr(st)
    try:
        r2 = call(grid, st)
        if mode == "raise" and g_out:
            out.append((f"C12.{name}.extrapolation", "raise:no-error-on-replay",
                        f"values {g_out[:3]} outside [{lb}, {ub}] were accepted with extrapolation='raise'"))
        else:
            judge_rows(grid, r2, "replay")
    except ValueError as e:
        if not (mode == "raise" and g_out):
            out.append((f"C12.{name}.values", "replay-raises-ValueError", f"ValueError: {e}"))
        else:
            g2 = [v for v in grid if math.isnan(v) or lb <= v <= ub]
            try:
                judge_rows(g2, call(g2, st), "replay")
            except Exception as e2:  # noqa: BLE001
                out.append((f"C12.{name}.values", "replay-raises-" + type(e2).__name__, f"{type(e2).__name__}: {e2}"))
    except Exception as e:  # noqa: BLE001
        out.append((f"C12.{name}.values", "replay-raises-" + type(e).__name__, f"{type(e).__name__}: {e}"))
    if repr(st) != snapshot:
        out.append((f"C12.{name}.knot-vector", "state-changed-on-replay", f"{snapshot} -> {st!r}"))
    return out


def judge_cubic(x_train, grid, cfg, tol=1e-9):
    """`_judge_cubic`, with the witness class suffixed by the knot count when the configuration asks for at most
    three knots (bounds included): those degenerate sizes have their own failure modes."""
    centred, cyclic = cfg.get("constraints") == "center", cfg["cyclic"]
    if cfg.get("df") is not None:
        n_knots = cfg["df"] + (1 if centred else 0) + (1 if cyclic else 0)
    else:
        n_knots = len(set(cfg.get("knots") or [])) + 2
    small = f":knots={n_knots}" if n_knots <= 3 else ""
    return [(clause, cls + ("" if "nulls-in-training" in cls else small), detail)
            for clause, cls, detail in _judge_cubic(x_train, grid, cfg, tol)]
