"""Development aid (not used by ./check): run a bounded driver and execute every reported
witness program stand-alone; each must fail now (exit code != 0)."""
import subprocess, sys, os, time
from concurrent.futures import ThreadPoolExecutor
from vf import core


def main():
    prop, tier = sys.argv[1], sys.argv[2]
    import importlib

    ctx = core.Ctx(prop.upper(), tier, int(os.environ.get("VERIF_SEED", "0")))
    mod = importlib.import_module(f"vf.bounded.{prop.lower()}")
    t = time.time()
    mod.run_bounded(ctx)
    print("wall", round(time.time() - t, 1), "violations", len(ctx.violations))
    for b in ctx.bounded_runs:
        print("  ", b.name, b.evaluations, len(b.distinct))

    def run(v):
        code = v["witness"]["code"]
        r = subprocess.run([sys.executable, "-W", "ignore", "-c", code], capture_output=True, text=True, cwd=str(core.ROOT))
        return v, r

    bad = 0
    with ThreadPoolExecutor(8) as ex:
        for v, r in ex.map(run, ctx.violations):
            assertion = "AssertionError" in r.stderr
            if r.returncode == 0 or not assertion:
                bad += 1
                print("NOT REPRODUCED" if r.returncode == 0 else "FAILS DIFFERENTLY", v["clause"], v["witness"]["cls"], r.stderr[-300:])
    print("witness programs checked:", len(ctx.violations), "problems:", bad)
    from collections import Counter

    for k, n in sorted(Counter((v["clause"], v["witness"]["cls"]) for v in ctx.violations).items()):
        print("  ", k, n)


if __name__ == "__main__":
    main()
