"""C08 bounded stand-in: text / categorical columns are dummy-coded, numerics pass through, every
cell of every model matrix is a number -- for every column dtype pandas 3 / pyarrow produce for
text, categorical and numeric data x formulas x output types x materializers.

Oracle (statement + docsite guides: default coding is Treatment with the first level as reference,
terms ordered by degree, `a:b` is the row-wise product):
  text        -> indicator columns, one per distinct value, in *sorted* order of the values; for Python-object
                 columns mixing value types (str + int, str + float) no order is defined, so only "one indicator
                 column per distinct value, every cell a number" is judged;
  categorical -> indicator columns in the *declared* category order; a declared category that never
                 occurs keeps its position as an all-zero column; the same holds when the column is
                 wrapped in C(...) with any built-in coding (treatment, sum);
  numeric     -> the column itself (as float; exact) whatever other columns (integer-typed dummies, int data,
                 floats with non-integral values) stand before or after it; products with w to rtol 1e-6;
  every cell  -> a number (int / float / bool scalar; never str / None / other objects).
bool: the statement lists bool with the numeric dtypes but no guide says how a bool column is
coded, so for bool only "every cell is a number" is checked (pandas passes the column through,
narwhals dummy-codes it: both satisfy that).
Expected matrices are built here from the raw Python values, never from the library's output.
"""
from __future__ import annotations

import numbers
import warnings

import numpy as np
import pandas as pd

from . import _nullrows_common as K

TEXT = ["b", "c", "a", "b", "a", "c"]
CAT_DECLARED = ["c", "a", "b"]
ICAT = [3, 1, 2, 3, 2, 1]
ICAT_DECLARED = [3, 1, 2]
INTS = [3, 1, 2, 5, 4, 6]
FLOATS = [1.5, -2.25, 3.0, 0.5, 4.75, 6.0]
BOOLS = [True, False, True, True, False, False]
W = [1.5, 2.5, 3.5, 4.5, 5.5, 6.5]  # float helper column, non-integral values
N = [4, 1, 3, 2, 6, 5]  # integer helper column (int64)

# name, group, pandas Series source, pyarrow array source (or None), values, levels (or None)
DTYPES = []


def _add(name, group, pd_src, pa_src, values, levels=None):
    DTYPES.append((name, group, pd_src, pa_src, values, levels))


_add("object", "text", f"pd.Series({TEXT!r}, dtype=object)", None, TEXT, sorted(set(TEXT)))
_add("str (pandas-3 default)", "text", f"pd.Series({TEXT!r})", None, TEXT, sorted(set(TEXT)))
_add("str", "text", f"pd.Series({TEXT!r}, dtype='str')", None, TEXT, sorted(set(TEXT)))
_add("string[python]", "text", f"pd.Series({TEXT!r}, dtype='string[python]')", None, TEXT, sorted(set(TEXT)))
_add("string[pyarrow]", "text", f"pd.Series({TEXT!r}, dtype='string[pyarrow]')", None, TEXT, sorted(set(TEXT)))
_add("string[pyarrow] via ArrowDtype", "text", f"pd.Series({TEXT!r}, dtype=pd.ArrowDtype(pa.string()))",
     f"pa.array({TEXT!r}, type=pa.string())", TEXT, sorted(set(TEXT)))
_add("large_string[pyarrow] via ArrowDtype", "text", f"pd.Series({TEXT!r}, dtype=pd.ArrowDtype(pa.large_string()))",
     f"pa.array({TEXT!r}, type=pa.large_string())", TEXT, sorted(set(TEXT)))
# Python-object columns whose values are not all str (zip codes mixing str and int, ...): still text data that has
# to be dummy-coded; a sorted order is not defined across types, so the level ORDER is not judged for these
MIXED_SI = ["b", 3, "a", "b", "a", 3]
MIXED_SF = ["b", 2.5, "a", "b", "a", 2.5]
DIGITS = ["10", "2", "33", "10", "33", "2"]
_add("object (str + int values)", "mixed", f"pd.Series({MIXED_SI!r}, dtype=object)", None, MIXED_SI, ["b", 3, "a"])
_add("object (str + float values)", "mixed", f"pd.Series({MIXED_SF!r}, dtype=object)", None, MIXED_SF, ["b", 2.5, "a"])
_add("object (digit strings)", "text", f"pd.Series({DIGITS!r}, dtype=object)", None, DIGITS, sorted(set(DIGITS)))
for ordered in (False, True):
    codes = [CAT_DECLARED.index(v) for v in TEXT]
    _add(f"category(str, ordered={ordered})", "cat",
         f"pd.Series(pd.Categorical({TEXT!r}, categories={CAT_DECLARED!r}, ordered={ordered}))",
         f"pa.DictionaryArray.from_arrays(pa.array({codes!r}, type=pa.int8()), pa.array({CAT_DECLARED!r}), ordered={ordered})",
         TEXT, CAT_DECLARED)
    icodes = [ICAT_DECLARED.index(v) for v in ICAT]
    _add(f"category(int, ordered={ordered})", "cat",
         f"pd.Series(pd.Categorical({ICAT!r}, categories={ICAT_DECLARED!r}, ordered={ordered}))",
         f"pa.DictionaryArray.from_arrays(pa.array({icodes!r}, type=pa.int8()), pa.array({ICAT_DECLARED!r}, type=pa.int64()), ordered={ordered})",
         ICAT, ICAT_DECLARED)
# categorical dtype with a declared level that never occurs (gets an all-zero indicator in its declared
# position; the missing-data guide shows exactly this for `C[T.d]`)
CAT_UNOBS = ["c", "d", "a", "b"]
_codes_u = [CAT_UNOBS.index(v) for v in TEXT]
_add("category(str, unobserved level)", "cat",
     f"pd.Series(pd.Categorical({TEXT!r}, categories={CAT_UNOBS!r}))",
     f"pa.DictionaryArray.from_arrays(pa.array({_codes_u!r}, type=pa.int8()), pa.array({CAT_UNOBS!r}))",
     TEXT, CAT_UNOBS)
ICAT_UNOBS = [3, 7, 1, 2]
_icodes_u = [ICAT_UNOBS.index(v) for v in ICAT]
_add("category(int, unobserved level)", "cat",
     f"pd.Series(pd.Categorical({ICAT!r}, categories={ICAT_UNOBS!r}))",
     f"pa.DictionaryArray.from_arrays(pa.array({_icodes_u!r}, type=pa.int8()), pa.array({ICAT_UNOBS!r}, type=pa.int64()))",
     ICAT, ICAT_UNOBS)
for bits in (8, 16, 32, 64):
    _add(f"int{bits}", "num", f"pd.Series({INTS!r}, dtype='int{bits}')", f"pa.array({INTS!r}, type=pa.int{bits}())", INTS)
    _add(f"uint{bits}", "num", f"pd.Series({INTS!r}, dtype='uint{bits}')", f"pa.array({INTS!r}, type=pa.uint{bits}())", INTS)
for bits in (32, 64):
    _add(f"float{bits}", "num", f"pd.Series({FLOATS!r}, dtype='float{bits}')", f"pa.array({FLOATS!r}, type=pa.float{bits}())", FLOATS)
_add("bool", "bool", f"pd.Series({BOOLS!r}, dtype='bool')", f"pa.array({BOOLS!r}, type=pa.bool_())", BOOLS)
_add("Int64 (nullable)", "num", f"pd.Series({INTS!r}, dtype='Int64')", None, INTS)
_add("Float64 (nullable)", "num", f"pd.Series({FLOATS!r}, dtype='Float64')", None, FLOATS)
_add("boolean (nullable)", "bool", f"pd.Series({BOOLS!r}, dtype='boolean')", None, BOOLS)
THOROUGH_EXTRA = len(DTYPES)
for nm in ("Int8", "Int16", "Int32", "UInt8", "UInt16", "UInt32", "UInt64"):
    _add(f"{nm} (nullable)", "num", f"pd.Series({INTS!r}, dtype='{nm}')", None, INTS)
_add("Float32 (nullable)", "num", f"pd.Series({FLOATS!r}, dtype='Float32')", None, FLOATS)
_add("int64[pyarrow] via ArrowDtype", "num", f"pd.Series({INTS!r}, dtype=pd.ArrowDtype(pa.int64()))", None, INTS)
_add("double[pyarrow] via ArrowDtype", "num", f"pd.Series({FLOATS!r}, dtype=pd.ArrowDtype(pa.float64()))", None, FLOATS)

FORMULAS = ("0 + v", "v", "0 + v:w", "v + w + v:w",
            # several columns of different cell types side by side, no intercept, both orders: every numeric
            # column must come through unchanged whatever stands next to it (integer-typed dummies / int data first)
            "0 + v + w", "0 + w + v", "0 + n + w", "0 + w + n", "0 + v + n + w")
# explicit-coding spellings of the same column: whatever the coding, the level order must be the declared
# order (categorical dtype) / sorted order (text).  Only for the text / categorical dtypes: C(<numeric>) is a
# request to treat numbers as categories, which the statement does not speak about.
C_FORMULAS = ("0 + C(v)", "C(v)", "C(v, contr.treatment)", "C(v, contr.sum)", "0 + C(v):w")

# materializer name -> (data source given `v_pd` / `v_pa`, outputs)
MATERIALIZERS = {
    "pandas": ("df", ("pandas", "numpy", "sparse")),
    "narwhals(pandas)": ("nw.from_native(df, eager_only=True)", ("narwhals", "pandas", "numpy", "sparse")),
    "narwhals(pyarrow)": ("pa.table({'v': V_PA, 'w': pa.array(W, type=pa.float64()), 'n': pa.array(N, type=pa.int64())})", ("narwhals", "pandas", "numpy", "sparse")),
}

PRELUDE = K.PRELUDE + "import pyarrow as pa\nimport narwhals.stable.v1 as nw\n"


# null variants (text / categorical dtypes only): which cells are null
#   "none"   : no nulls
#   "w-null" : the helper column w is null on rows 2 and 4 -- the ONLY rows of level 'a' (text) / 2 (int
#              categories): once those rows are dropped (default policy) that level has no rows left
#   "v-null" : the column itself is null on rows 1 and 5 -- the only rows of 'c' / 1, the first declared level
VARIANTS = ("none", "w-null", "v-null")
NULL_ROWS = {"none": ((), ()), "w-null": ((), (2, 4)), "v-null": ((1, 5), ())}


def variant_values(dt, variant):
    values = list(dt[4])
    v_null, w_null = NULL_ROWS[variant]
    v = [None if i in v_null else x for i, x in enumerate(values)]
    w = [None if i in w_null else x for i, x in enumerate(W)]
    return v, w


def _sub(src, old, new):
    assert src.count(old) == 1, (src, old)
    return src.replace(old, new)


def data_code(dt, mat, variant="none"):
    name, group, pd_src, pa_src, values, levels = dt
    v, w = variant_values(dt, variant)
    src = f"W = {w!r}\nN = {N!r}\n"
    if mat == "narwhals(pyarrow)":
        if variant == "v-null":
            if "DictionaryArray" in pa_src:
                codes = [levels.index(x) for x in values]
                pa_src = _sub(pa_src, repr(codes), repr([None if x is None else levels.index(x) for x in v]))
            else:
                pa_src = _sub(pa_src, repr(values), repr(v))
        src += f"V_PA = {pa_src}\ndata = {MATERIALIZERS[mat][0]}\n"
    else:
        if variant == "v-null":
            pd_src = _sub(pd_src, repr(values), repr(v))
        src += f"df = pd.DataFrame({{'v': {pd_src}, 'w': pd.Series(W, dtype='float64'), 'n': pd.Series(N, dtype='int64')}})\ndata = {MATERIALIZERS[mat][0]}\n"
    return src


def expected(dt, formula, variant="none"):
    """Candidate expected dense matrices built from the raw values (None for bool: only cells are checked).
    More than one candidate only for text columns with dropped rows: the statement does not say whether the
    sorted level set is taken before or after the null rows are dropped, so both are accepted.  For a
    categorical dtype the declared levels are the levels, whichever rows are dropped."""
    name, group, pd_src, pa_src, values, levels = dt
    v, wv = variant_values(dt, variant)
    uses_w = "w" in formula
    uses_v = "v" in formula
    keep = [i for i in range(len(v)) if not (uses_v and v[i] is None) and not (uses_w and wv[i] is None)]
    nn = np.array([N[i] for i in keep], dtype=float)
    if formula in ("0 + n + w", "0 + w + n"):
        wk = np.array([wv[i] for i in keep], dtype=float)
        return [[nn, wk] if formula == "0 + n + w" else [wk, nn]]
    vals = [v[i] for i in keep]
    w = np.array([wv[i] if wv[i] is not None else np.nan for i in keep], dtype=float)
    one = np.ones(len(keep))
    if group == "bool":
        return None
    if group == "num":
        x = np.array(vals, dtype=float)
        return [{"0 + v": [x], "v": [one, x], "0 + v:w": [x * w], "v + w + v:w": [one, x, w, x * w],
                 "0 + v + w": [x, w], "0 + w + v": [w, x], "0 + v + n + w": [x, nn, w]}[formula]]
    if group in ("cat", "mixed"):
        level_sets = [list(levels)]
    else:
        level_sets = [sorted({x for x in v if x is not None})]
        if sorted(set(vals)) not in level_sets:
            level_sets.append(sorted(set(vals)))
    out = []
    for lv_set in level_sets:
        ind = [np.array([1.0 if x == lv else 0.0 for x in vals]) for lv in lv_set]
        if formula in ("0 + v", "0 + C(v)"):
            out.append(ind)
        elif formula == "0 + v + w":
            out.append(ind + [w])
        elif formula == "0 + w + v":
            out.append([w] + ind)
        elif formula == "0 + v + n + w":
            out.append(ind + [nn, w])
        elif formula in ("v", "C(v)", "C(v, contr.treatment)"):
            out.append([one] + ind[1:])
        elif formula in ("0 + v:w", "0 + C(v):w"):
            out.append([i * w for i in ind])
        elif formula == "C(v, contr.sum)":
            # sum (deviation) coding, contrasts guide: one column per level but the last; rows of the last level are -1
            out.append([one] + [i - ind[-1] for i in ind[:-1]])
        else:
            out.append([one] + ind[1:] + [w] + [i * w for i in ind[1:]])
    return out


def to_cells(m):
    """(2-d object/numeric ndarray of the cells, description) for any output type."""
    import scipy.sparse as sp

    w = K.unwrap(m)
    if sp.issparse(w):
        return np.asarray(w.todense())
    if isinstance(w, pd.DataFrame):
        return w.to_numpy(dtype=object) if any(dt.kind not in "iufb" for dt in map(_np_dtype, w.dtypes)) else w.to_numpy()
    if isinstance(w, np.ndarray):
        return w
    if hasattr(w, "to_pandas"):  # narwhals frame / pyarrow table
        return to_cells_df(w.to_pandas())
    raise TypeError(f"unknown matrix type {type(w)}")


def _np_dtype(dt):
    try:
        return np.dtype(dt)
    except TypeError:
        return np.dtype(object)


def to_cells_df(df):
    return df.to_numpy(dtype=object) if any(_np_dtype(dt).kind not in "iufb" for dt in df.dtypes) else df.to_numpy()


def cells_numeric(arr):
    if arr.dtype.kind in "iufb":
        return True, None
    for x in arr.ravel():
        if isinstance(x, (str, bytes)) or x is None or not isinstance(x, (numbers.Number, np.number, np.bool_)):
            return False, repr(x)
    return True, None


def _run_bounded(ctx):
    ctx.assume(
        "A-C08-default-coding: default coding is Treatment with the first level as reference (contrasts guide), terms are "
        "ordered by degree and `a:b` columns are row-wise products (grammar guide); only used to lay out expected matrices",
        "A-C08-bool: nothing is documented for bool columns beyond the statement listing bool among the dtypes; for bool "
        "only 'every cell is a number' is checked (a bool scalar counts as a number)",
        "A-C08-unobserved: a declared category that never occurs keeps its declared position as an all-zero indicator (as the "
        "missing-data guide shows for `C[T.d]`); lowercase ASCII text, so 'sorted' is unambiguous",
        "A-C08-sum-coding: `C(v, contr.sum)` = intercept + one column per level but the last, rows of the last level -1 (contrasts guide)",
        "A-C08-nulls: with rows dropped for nulls a categorical dtype keeps every declared level (all-zero column for a level "
        "without retained rows); for text both 'sorted distinct values of all rows' and '... of the retained rows' are accepted",
        "A-C08-float: pass-through columns compared exactly after conversion to float64, products to rtol=1e-6 (float32 inputs)",
    )
    import pyarrow as pa  # noqa: F401  (fail loudly if the environment lacks it)

    dtypes = DTYPES if ctx.thorough else DTYPES[:THOROUGH_EXTRA]
    with ctx.bounded(
        "dtype-table",
        rule=f"one 6-row frame per dtype ({len(dtypes)} dtypes: object, str, string[python|pyarrow], (large_)string via ArrowDtype, "
        "category ordered/unordered with str/int categories in non-sorted declared order and with an unobserved declared level, int8-64, uint8-64, float32/64, bool, "
        "nullable Int64/Float64/boolean"
        + (", further nullable widths, arrow-backed int64/double" if ctx.thorough else "")
        + f") x formulas {list(FORMULAS)} (text / categorical dtypes also {list(C_FORMULAS)}, and each of those with no nulls / the helper column null on the only "
        "rows of one level / the column itself null on the only rows of its first declared level, default drop policy) x materializers (pandas; narwhals on pandas; narwhals on a pyarrow Table where the "
        "dtype exists) x every output type of the materializer; all cases are non-trivial",
        exhaustive=True,
        bound="the listed dtype set; one fixed 6-row value vector per dtype group",
    ) as b:
        rep = K.Reporter(ctx, b)
        for dt in dtypes:
            name, group, pd_src, pa_src, values, levels = dt
            for mat, (_, outputs) in MATERIALIZERS.items():
                if mat == "narwhals(pyarrow)" and pa_src is None:
                    continue
                for formula in FORMULAS + (C_FORMULAS if group in ("text", "cat", "mixed") else ()):
                    if "v" not in formula and name not in ("object", "int64"):
                        continue  # formulas over the helper columns only: the tested dtype is irrelevant
                    for variant in (VARIANTS if group in ("text", "cat") else ("none",)):
                        if variant == "w-null" and "w" not in formula:
                            continue  # w is not an evaluated factor of this formula: same as "none"
                        if variant == "v-null" and "v" not in formula:
                            continue
                        for out in outputs:
                            key = (name, mat, formula, variant, out)
                            b.case(key, nontrivial=True, sample={"dtype": name, "materializer": mat, "formula": formula,
                                                                 "nulls": variant, "output": out})
                            try:
                                _one(rep, dt, mat, formula, out, variant)
                            except Exception as e:  # the oracle was fed something it cannot digest
                                f = K.oracle_failure(e, _GROUP_CLAUSE.get(group, "C08.cells.numeric"), key)
                                rep.fail(f["clause"], f"{name} | {mat} | " + f["cls"],
                                         {"dtype": name, "materializer": mat, "formula": formula, "nulls": variant, "output": out},
                                         f["detail"])
        rep.note()

    with ctx.bounded(
        "kind-inference",
        rule="the real _is_categorical of each materializer applied to one column per dtype must answer True exactly for "
        "the text / categorical dtypes (bool excluded, see A-C08-bool)",
        exhaustive=True,
        bound="the listed dtype set",
    ) as b:
        rep = K.Reporter(ctx, b)
        for dt in dtypes:
            name, group, pd_src, pa_src, values, levels = dt
            if group == "bool":
                continue
            for mat in MATERIALIZERS:
                if mat == "narwhals(pyarrow)" and pa_src is None:
                    continue
                b.case((name, mat), nontrivial=True)
                try:
                    _kind(rep, dt, mat)
                except Exception as e:  # constructing the materializer / asking it raised
                    f = K.oracle_failure(e, "C08.kind.is_categorical", (name, mat))
                    rep.fail(f["clause"], f"{name} | {mat} | " + f["cls"], {"dtype": name, "materializer": mat}, f["detail"])
        rep.note()
    if not ctx.explanation:
        ctx.explanation = (
            "bounded stand-in only (no deductive obligations registered in this run): exhaustive over the finite dtype "
            "table; expected matrices laid out from the raw values, compared for every output type and materializer"
        )


_GROUP_CLAUSE = {"mixed": "C08.text.indicator-columns", "text": "C08.text.sorted-indicators", "cat": "C08.categorical.declared-order-indicators",
                 "num": "C08.numeric.pass-through", "bool": "C08.cells.numeric"}

_KIND_SRC = (
    "mcls = formulaic.materializers.PandasMaterializer if MAT == 'pandas' else formulaic.materializers.NarwhalsMaterializer\n"
    "m = mcls(data)\n"
    "col = m.data_context['v']\n"
    "got = bool(m._is_categorical(col))\n"
)


def _kind(rep, dt, mat):
    name, group, *_ = dt
    src = PRELUDE + data_code(dt, mat) + f"MAT = {mat!r}\n" + _KIND_SRC
    env = {}
    with warnings.catch_warnings():
        warnings.simplefilter("ignore")
        exec(src, env)
    want = group in ("text", "cat", "mixed")
    if env["got"] != want:
        rep.fail("C08.kind.is_categorical", f"{name} | {mat}",
                 {"dtype": name, "materializer": mat, "code": src + f"assert got == {want}, ('_is_categorical', got)\n"},
                 f"_is_categorical({name}) = {env['got']} expected {want}")


_CHECK_SRC = '''
import numbers
def cells(m):
    w = m.__wrapped__ if hasattr(m, "__wrapped__") else m
    if scipy.sparse.issparse(w): return np.asarray(w.todense())
    if isinstance(w, np.ndarray): return w
    if not isinstance(w, pd.DataFrame): w = w.to_pandas()
    return w.to_numpy(dtype=object)
c = cells(res)
for x in c.ravel():
    assert not isinstance(x, (str, bytes)) and x is not None and isinstance(x, (numbers.Number, np.number, np.bool_)), ("non-numeric cell", x)
if EXPECTED_ANY is not None:
    def matches(e):
        exp = np.array(e, dtype=float).T.reshape(-1, len(e))
        return c.shape == exp.shape and np.allclose(c.astype(float), exp, rtol=RTOL, atol=0)
    if ORDER_FREE:
        exp = np.array(EXPECTED_ANY[0], dtype=float).T.reshape(-1, len(EXPECTED_ANY[0]))
        assert c.shape == exp.shape, ("shape", c.shape, "expected", exp.shape, list(res.model_spec.column_names))
        if FULL_RANK:
            assert sorted(map(tuple, np.round(c.astype(float), 9).T.tolist())) == sorted(map(tuple, np.round(exp, 9).T.tolist())), (list(res.model_spec.column_names), c.tolist())
    else:
        assert any(matches(e) for e in EXPECTED_ANY), (list(res.model_spec.column_names), c.astype(float).tolist(), "expected one of", EXPECTED_ANY)
'''


def _one(rep, dt, mat, formula, out, variant="none"):
    from formulaic import model_matrix

    name, group, pd_src, pa_src, values, levels = dt
    src = PRELUDE + data_code(dt, mat, variant)
    env = {}
    with warnings.catch_warnings():
        warnings.simplefilter("ignore")
        exec(src, env)
        data = env["data"]
        exps = expected(dt, formula, variant)
        rtol = 1e-6 if ":" in formula else 0.0  # only products (float32 inputs) get a tolerance; pass-through is exact
        code = (src + f"res = model_matrix({formula!r}, data, output={out!r})\n"
                + f"EXPECTED_ANY = {None if exps is None else [[c.tolist() for c in e] for e in exps]!r}\nRTOL = {rtol}\nORDER_FREE = {group == 'mixed'}\nFULL_RANK = {formula.startswith('0 +')}\n" + _CHECK_SRC)
        cls = f"{name} | {mat}" + (" | via C()" if "C(" in formula else "") + ("" if variant == "none" else " | rows dropped for nulls")
        wit = {"dtype": name, "materializer": mat, "formula": formula, "nulls": variant, "output": out, "code": code}
        try:
            res = model_matrix(formula, data, output=out)
        except Exception as e:
            rep.fail("C08.completes", cls, wit, f"{type(e).__name__}: {e}")
            return
        cells = to_cells(res)
        ok, bad = cells_numeric(cells)
        if not ok:
            rep.fail("C08.cells.numeric", cls, wit, f"cell {bad} in output {out!r}; columns {list(res.model_spec.column_names)}")
            return
        if exps is None:
            return
        clause = _GROUP_CLAUSE[group]
        Es = [np.array(e, dtype=float).T.reshape(-1, len(e)) for e in exps]
        if group == "mixed":
            # no order is defined across value types: full-rank formulas are compared as a SET of columns,
            # reduced-rank ones (whose reference level depends on the order) only by shape and numeric cells
            if cells.shape != Es[0].shape:
                rep.fail(clause, cls + " | shape", wit, f"shape {cells.shape} expected {Es[0].shape}; columns {list(res.model_spec.column_names)}")
            elif formula.startswith("0 +"):
                got_cols = sorted(map(tuple, np.round(cells.astype(float), 9).T.tolist()))
                exp_cols = sorted(map(tuple, np.round(Es[0], 9).T.tolist()))
                if got_cols != exp_cols:
                    rep.fail(clause, cls, wit, f"columns {list(res.model_spec.column_names)} are not the indicator columns of the values: {cells.astype(float).tolist()}")
            return
        shaped = [E for E in Es if E.shape == cells.shape]
        if not shaped:
            rep.fail(clause, cls + " | shape", wit,
                     f"shape {cells.shape} expected {[E.shape for E in Es]}; columns {list(res.model_spec.column_names)}")
            return
        got = cells.astype(float)
        if not any(np.allclose(got, E, rtol=rtol, atol=0) for E in shaped):
            E = shaped[0]
            # a permutation of the expected level columns = ordering failure, else value failure
            perm = sorted(map(tuple, got.T.tolist())) == sorted(map(tuple, E.T.tolist()))
            rep.fail(clause, cls, wit,
                     ("columns are the expected ones in another order; " if perm else "") + f"columns {list(res.model_spec.column_names)} values {got.tolist()} expected {E.tolist()}")


def run_bounded(ctx):
    """Never raises because of what the library under test returns or raises: anything that slips past the
    per-case guards is recorded as a violation (class oracle-not-applicable:<Type>) and the run ends normally."""
    with K.guard(ctx, "C08.cells.numeric", "c08.run_bounded"):
        _run_bounded(ctx)
