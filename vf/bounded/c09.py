"""C09 bounded stand-in: reusing a spec on incompatible data fails loudly and never reshapes
columns.

(training frame, follow-up frame) pairs are enumerated over: formulas with the changed factor
alone and in interactions x storage of the categorical column (object / category / category of
integers) x output type x scenario (same levels, every proper sub-set of levels present, unseen
levels mixed in / only unseen levels, categorical-at-fit arriving numeric, numeric-at-fit arriving
categorical with 1..3 levels).  Oracle, from the statement only:
  kind change   -> formulaic.errors.FactorEncodingError, never a matrix;
  lost levels   -> no error, column names/order unchanged, the columns of an absent level all zero;
  gained levels -> no error, column names/order unchanged, a DataMismatchWarning is emitted.
"""
from __future__ import annotations

import itertools
import random
import warnings
from collections import Counter

import numpy as np
import pandas as pd

from ._stateful_util import Reporter, WorkResult, chunked, code, guard, merge, pmap

LEVELS = ["p", "q", "r"]
NEW_LEVELS = ["y", "z"]

WITNESS = """
import warnings
import numpy as np, pandas as pd
from formulaic import model_matrix
from formulaic.errors import FactorEncodingError, DataMismatchWarning

def frame(cols):
    import pyarrow as pa
    arrow = {{"arrow-string": pa.string(), "arrow-large-string": pa.large_string()}}
    out = {{}}
    for name, (values, dtype) in cols.items():
        if dtype == "category":
            out[name] = pd.Categorical(values)
        elif dtype in arrow:
            out[name] = pd.Series(values, dtype=pd.ArrowDtype(arrow[dtype]))
        else:
            out[name] = pd.Series(values, dtype=dtype)
    return pd.DataFrame(out)

train = frame({train!r})
new = frame({new!r})
mm = model_matrix({formula!r}, train, output={output!r}, context={{}})
subset = {subset!r}            # None: the recorded spec itself; else the terms kept by ModelSpec.subset
spec = mm.model_spec if subset is None else mm.model_spec.subset(subset)
expected = list(spec.column_names)
scenario, clause = {scenario!r}, {clause!r}
with warnings.catch_warnings(record=True) as caught:
    warnings.simplefilter("always")
    try:
        m2 = spec.get_model_matrix(new)
        raised = None
    except Exception as e:
        m2, raised = None, e
if clause == "C09.kind-change.must-raise-FactorEncodingError":
    assert isinstance(raised, FactorEncodingError), ("expected FactorEncodingError, got", repr(raised) if raised else "a matrix")
else:
    assert raised is None, ("materialization failed", repr(raised))
    dense = np.asarray(m2.todense() if hasattr(m2, "todense") else m2, dtype=float)
    if clause == "C09.columns.unchanged":
        assert list(m2.model_spec.column_names) == expected and dense.shape == (len(new), len(expected)), (list(m2.model_spec.column_names), dense.shape, expected)
        if {output!r} == "pandas":
            assert list(m2.columns) == expected, (list(m2.columns), expected)
    elif clause == "C09.lost-levels.zero-columns":
        for j in {zero_cols!r}:
            assert (dense[:, j] == 0).all(), (expected[j], dense[:, j].tolist())
    elif clause == "C09.subset.columns":
        assert set(expected) <= set(mm.model_spec.column_names), (expected, list(mm.model_spec.column_names))
    elif clause == "C09.gained-levels.DataMismatchWarning":
        assert any(issubclass(w.category, DataMismatchWarning) for w in caught), [str(w.category) for w in caught]
"""


def _frame(cols):
    import pyarrow as pa

    arrow = {"arrow-string": pa.string(), "arrow-large-string": pa.large_string()}
    out = {}
    for name, (values, dtype) in cols.items():
        if dtype == "category":
            out[name] = pd.Categorical(values)
        elif dtype in arrow:
            out[name] = pd.Series(values, dtype=pd.ArrowDtype(arrow[dtype]))
        else:
            out[name] = pd.Series(values, dtype=dtype)
    return pd.DataFrame(out)


# every way pandas stores a text column (the dtype of the FOLLOW-UP frame's text columns is a grid dimension)
TEXT_DTYPES = ["object", "str", "string[python]", "string[pyarrow]", "arrow-string", "arrow-large-string", "category"]


def _with_followup_dtypes(cases, thorough):
    """re-store the text columns of every follow-up frame: quick tier one dtype per case (rotating through TEXT_DTYPES),
    thorough tier all of them.  Frames whose categorical holds integers are left alone."""
    out = []
    for i, c in enumerate(cases):
        text_cols = [k for k, (vals, dt) in c["new"].items()
                     if dt in ("object", "category") and vals and all(isinstance(v, str) for v in vals)]
        if not text_cols:
            out.append(c)
            continue
        for dt in (TEXT_DTYPES if thorough else [TEXT_DTYPES[i % len(TEXT_DTYPES)]]):
            new = dict(c["new"])
            for k in text_cols:
                new[k] = (new[k][0], dt)
            out.append({**c, "new": new, "fu_dtype": dt})
    return out


# formulas: 'a' is the factor whose levels / kind change; 'b' another categorical; 'x', 'w' numeric
# {LV}: the literal list of the levels seen at fit; {LVR}: the same reversed; {LVS}: the same plus one declared level
# that never occurs (explicitly nominated levels are just another spelling of the categorical factor)
CAT_FORMULAS = ["a", "a - 1", "a + x", "a:x", "x:a", "a:x - 1", "a:b", "a*b", "a*x", "b + a:x", "a:x:w", "a:b:x",
                "C(a)", "C(a):x", "C(a, contr.treatment)", "b:C(a) - 1",
                "C(a, levels={LV})", "C(a, levels={LVR}):x", "b:C(a, levels={LV}) - 1", "C(a, contr.treatment, levels={LVS})",
                "x + C(a, levels={LVR})*b"]
# contrasts for which "the column of an absent level" is not a zero column are only checked for names/warnings
NONDUMMY_FORMULAS = ["C(a, contr.sum)", "C(a, contr.helmert):x", "C(a, contr.poly)",
                     "C(a, contr.sum, levels={LV})", "C(a, contr.helmert, levels={LVR}):x"]


def _resolve(formula, storage, seen_levels):
    """fill the level-list placeholders with the literal values the column holds under this storage"""
    if "{LV" not in formula:
        return formula
    vals = _level_values(storage, sorted(seen_levels))[0]
    extra = 77 if storage == "category-int" else "s"
    return (formula.replace("{LVR}", repr(vals[::-1])).replace("{LVS}", repr(vals + [extra])).replace("{LV}", repr(vals)))


def _is_alone(formula):
    """the formula consists of a single factor (operators inside call parentheses / brackets do not count)"""
    depth, out = 0, []
    for ch in formula.replace(" - 1", ""):
        depth += ch in "([{"
        depth -= ch in ")]}"
        if depth == 0:
            out.append(ch)
    return not any(ch in ":*+" for ch in out)
NUM_FORMULAS = ["x", "x - 1", "x + a", "a:x", "x:w", "x:a - 1", "b + x:w", "x*a"]


def _int_of(level):
    m = {"p": 1, "q": 2, "r": 3, "y": 8, "z": 9}
    if level in m:
        return m[level]
    return (int(level[1:]) + 1) if level[0] == "l" else (90 + int(level[1:]))  # l0.. seen at fit, n0.. unseen


def _level_values(storage, levels):
    """levels are p/q/r(/y/z) or l<i>/n<i>; for the integer-coded storage they are mapped to integers"""
    if storage == "category-int":
        return [_int_of(v) for v in levels], "category"
    return list(levels), ("category" if storage == "category" else "object")


def _cases(rng, thorough):
    cases = []
    n = 7
    xs = [1.5, -2.0, 3.25, 0.5, 4.0, -1.0, 2.0]
    ws = [0.5, 1.0, -1.5, 2.0, 0.25, 3.0, -0.75]
    bs = ["u", "v", "u", "v", "v", "u", "v"]
    a_train = ["p", "q", "r", "q", "p", "r", "q"]
    storages = ["object", "category", "category-int"]
    outputs = ["pandas", "numpy", "sparse"]

    def base(storage, a_levels):
        av, adt = _level_values(storage, a_levels)
        return {"a": (av, adt), "b": (bs[: len(av)], "object"), "x": (xs[: len(av)], "float64"),
                "w": (ws[: len(av)], "float64")}

    # ---- level scenarios
    lvl_scen = [("same", a_train)]
    for k in range(1, len(LEVELS)):
        for present in itertools.combinations(LEVELS, k):
            seq = [present[i % len(present)] for i in range(n)]
            lvl_scen.append(("lost:" + "".join(present), seq))
    for present, news in [(("p", "q", "r"), ("z",)), (("q",), ("z",)), (("p", "r"), ("y", "z")), ((), ("z",)),
                          ((), ("y", "z"))]:
        pool = list(present) + list(news)
        seq = [pool[i % len(pool)] for i in range(n)]
        lvl_scen.append(("gained:" + "".join(present) + "+" + "".join(news), seq))
    for storage, output in itertools.product(storages, outputs):
        train = base(storage, a_train)
        for template in CAT_FORMULAS + NONDUMMY_FORMULAS:
            formula = _resolve(template, storage, LEVELS)
            for scen, seq in lvl_scen:
                new = base(storage, seq)
                cases.append({"formula": formula, "train": train, "new": new, "output": output, "scenario": scen,
                              "storage": storage, "dummy": template in CAT_FORMULAS,
                              "absent": [lv for lv in LEVELS if lv not in seq]})
            # follow-up shorter / longer than the training frame, single row
            for m, seq in ((1, ["r"]), (3, ["q", "q", "z"])):
                new = base(storage, seq)
                cases.append({"formula": formula, "train": train, "new": new, "output": output,
                              "scenario": ("gained:q+z" if "z" in seq else "lost:r") + f":rows={m}", "storage": storage,
                              "dummy": template in CAT_FORMULAS, "absent": [lv for lv in LEVELS if lv not in seq]})
        # ---- kind change: categorical at fit arrives numeric
        for formula in [f for f in CAT_FORMULAS if "C(" not in f]:
            for num_kind, vals in (("float", [1.0, 2.0, 3.0, 2.0, 1.0, 3.0, 2.0]), ("int", [1, 2, 3, 2, 1, 3, 2]),
                                   ("float-other", [0.5, -1.25, 7.0, 2.0, 0.0, 3.0, 1e3])):
                new = base(storage, a_train)
                new["a"] = (vals, "float64" if num_kind.startswith("float") else "int64")
                cases.append({"formula": formula, "train": train, "new": new, "output": output,
                              "scenario": "kind:cat->num:" + num_kind, "storage": storage, "dummy": True, "absent": []})
        # ---- kind change: numeric at fit arrives categorical (1, 2 or 3 levels)
        if storage != "category-int":
            for formula in NUM_FORMULAS:
                for nlev in (1, 2, 3):
                    lv = ["m", "n", "o"][:nlev]
                    new = base(storage, a_train)
                    new["x"] = ([lv[i % nlev] for i in range(n)], "category" if storage == "category" else "object")
                    cases.append({"formula": formula, "train": train, "new": new, "output": output,
                                  "scenario": f"kind:num->cat:{nlev}-levels", "storage": storage, "dummy": True,
                                  "absent": []})
        else:
            # numeric integers at fit, the same integers as a pandas categorical afterwards
            train_i = base("object", a_train)
            train_i["x"] = ([1, 2, 3, 2, 1, 3, 2], "int64")
            for formula in NUM_FORMULAS:
                new = dict(train_i)
                new["x"] = ([1, 2, 3, 2, 1, 3, 2], "category")
                cases.append({"formula": formula, "train": train_i, "new": new, "output": output,
                              "scenario": "kind:num->cat:int-categorical", "storage": storage, "dummy": True, "absent": []})
    return cases


def _level_token(storage, lv):
    return str(_int_of(lv)) if storage == "category-int" else lv


def _random_cases(rng, n_cases):
    """seeded random pairs beyond the crossed scope: 2..5 levels, 4..12 training rows, 1..12 follow-up rows, random
    mixtures of seen / unseen levels"""
    cases = []
    for _ in range(n_cases):
        nlev = rng.randint(2, 5)
        levels = [f"l{i}" for i in range(nlev)]
        ntr = rng.randint(max(4, nlev), 12)
        a_train = levels + [rng.choice(levels) for _ in range(ntr - nlev)]
        rng.shuffle(a_train)
        storage = rng.choice(["object", "category", "category-int"])
        output = rng.choice(["pandas", "numpy", "sparse"])

        def base(a_levels):
            m = len(a_levels)
            av, adt = _level_values(storage, a_levels)
            return {"a": (av, adt), "b": ([rng.choice("uv") for _ in range(m)], "object"),
                    "x": ([round(rng.uniform(-5, 5), 3) for _ in range(m)], "float64"),
                    "w": ([round(rng.uniform(-5, 5), 3) for _ in range(m)], "float64")}

        train = base(a_train)
        train["b"] = ((["u", "v"] + [rng.choice("uv") for _ in range(ntr - 2)]), "object")
        kind = rng.choice(["lost", "gained", "gained", "same", "cat->num", "num->cat"])
        m = rng.randint(1, 12)
        if kind in ("lost", "same"):
            present = levels if kind == "same" else rng.sample(levels, rng.randint(1, nlev - 1))
            seq = [rng.choice(present) for _ in range(m)]
            scen = kind if kind == "same" else "lost:" + "".join(sorted(set(seq)))
            formula = rng.choice(CAT_FORMULAS + NONDUMMY_FORMULAS)
            new = base(seq)
        elif kind == "gained":
            news = [f"n{i}" for i in range(rng.randint(1, 2))]
            pool = rng.sample(levels, rng.randint(0, nlev)) + news
            seq = [rng.choice(pool) for _ in range(m - 1)] + [news[0]]
            scen = "gained:" + "".join(sorted(set(seq)))
            formula = rng.choice(CAT_FORMULAS + NONDUMMY_FORMULAS)
            new = base(seq)
        elif kind == "cat->num":
            formula = rng.choice([f for f in CAT_FORMULAS if "C(" not in f])
            new = base([rng.choice(levels) for _ in range(m)])
            if rng.random() < 0.5:
                new["a"] = ([float(rng.randint(1, nlev)) for _ in range(m)], "float64")
            else:
                new["a"] = ([rng.randint(1, nlev) for _ in range(m)], "int64")
            seq, scen = [], "kind:cat->num:random"
        else:
            formula = rng.choice(NUM_FORMULAS)
            new = base([rng.choice(levels) for _ in range(m)])
            k = rng.randint(1, 3)
            new["x"] = ([["m", "n", "o"][rng.randrange(k)] for _ in range(m)], rng.choice(["object", "category"]))
            seq, scen = [], f"kind:num->cat:random-{k}"
        cases.append({"formula": _resolve(formula, storage, levels), "train": train, "new": new, "output": output,
                      "scenario": scen, "storage": storage, "dummy": formula in CAT_FORMULAS,
                      "absent": [lv for lv in levels if lv not in seq] if kind == "lost" else []})
    return cases


def _zero_cols(columns, formula, storage, absent):
    """indices of the columns that belong to an absent level of `a` under dummy/treatment coding: a column whose
    name has a ':'-separated component  <factor>[T.<level>]  or  <factor>[<level>]  with factor a / C(a...)"""
    out = []
    for j, name in enumerate(columns):
        for comp in name.split(":"):
            if not (comp.startswith("a[") or comp.startswith("C(a")):
                continue
            if "[" not in comp or not comp.endswith("]"):
                continue
            inner = comp[comp.rindex("[") + 1: -1]
            if inner.startswith("T."):
                inner = inner[2:]
            if any(inner == _level_token(storage, lv) for lv in absent):
                out.append(j)
    return sorted(set(out))


def _subsets(spec, changed):
    """the recorded spec itself, and the specs derived from it with ModelSpec.subset: interaction terms only, main
    effects only, all terms in reverse order (each only if it differs from the full spec and still involves the factor
    whose kind / levels change).  Yields (tag, list-of-term-strings | None)."""
    import re

    yield "full", None
    terms = list(spec.terms)
    nonconst = [t for t in terms if len(t.factors) > 0]
    if len(nonconst) < 2:
        return
    const = [t for t in terms if len(t.factors) == 0]
    cands = [("subset:interactions-only", const + [t for t in nonconst if len(t.factors) >= 2]),
             ("subset:main-effects-only", const + [t for t in nonconst if len(t.factors) == 1]),
             ("subset:reversed", terms[::-1]),
             ("subset:last-term-only", const + nonconst[-1:])]
    seen = [[str(t) for t in terms]]
    for tag, ts in cands:
        strs = [str(t) for t in ts]
        if strs in seen or not any(len(t.factors) for t in ts):
            continue
        if not any(re.search(r"(?<![A-Za-z0-9_])" + changed + r"(?![A-Za-z0-9_])", str(t)) for t in ts if len(t.factors)):
            continue
        seen.append(strs)
        yield tag, strs


def _judge_pair(res, c, key, spec, subset, sub_mode, expected, new, FactorEncodingError, DataMismatchWarning):
    formula, output, scen = c["formula"], c["output"], c["scenario"]
    res.case(key, True, {"formula": formula, "output": output, "scenario": scen, "a-storage": c["storage"],
                         "spec": sub_mode, "recorded_columns": expected})
    zero_cols = _zero_cols(expected, formula, c["storage"], c["absent"]) if (c["dummy"] and scen.startswith("lost")) else []
    sub_tag = "" if subset is None else ":" + sub_mode
    if c.get("fu_dtype") not in (None, "object", "category"):
        sub_tag += ":followup-" + c["fu_dtype"]

    def wit(clause):
        return {"formula": formula, "output": output, "scenario": scen, "train": c["train"], "new": c["new"],
                "subset": subset,
                "code": code(WITNESS.format(train=c["train"], new=c["new"], formula=formula, output=output,
                                            scenario=scen, clause=clause, zero_cols=zero_cols, subset=subset))}

    with warnings.catch_warnings(record=True) as caught:
        warnings.simplefilter("always")
        try:
            m2 = spec.get_model_matrix(new)
            raised = None
        except Exception as e:  # noqa: BLE001 - outcome to be judged
            m2, raised = None, e
    where = ("alone" if _is_alone(formula) else "in-interaction-or-sum") + (":explicit-levels" if "levels=" in formula else "")
    if scen.startswith("kind:"):
        direction = scen.split(":")[1]
        if not isinstance(raised, FactorEncodingError):
            got = f"raised {type(raised).__name__}: {raised}" if raised is not None else \
                f"returned a matrix with columns {list(m2.model_spec.column_names)}"
            cls = direction + (":returned-matrix" if raised is None else ":raised-" + type(raised).__name__) + ":" + where + sub_tag
            res.fail("C09.kind-change.must-raise-FactorEncodingError", cls,
                     wit("C09.kind-change.must-raise-FactorEncodingError"),
                     f"{scen} [{sub_mode}]: expected formulaic.errors.FactorEncodingError, {got}"[:600])
        return
    kind = "lost" if scen.startswith("lost") else ("gained" if scen.startswith("gained") else "same")
    if raised is not None:
        res.fail("C09.columns.unchanged", f"{kind}:raised-{type(raised).__name__}{sub_tag}", wit("C09.columns.unchanged"),
                 f"{scen} [{sub_mode}]: {type(raised).__name__}: {raised}"[:600])
        return
    dense = np.asarray(m2.todense() if hasattr(m2, "todense") else m2, dtype=float)
    names = list(m2.model_spec.column_names)
    ok = names == expected and dense.shape == (len(new), len(expected))
    if ok and output == "pandas":
        ok = list(m2.columns) == expected
    if not ok:
        res.fail("C09.columns.unchanged", f"{kind}:{output}{sub_tag}", wit("C09.columns.unchanged"),
                 f"{scen} [{sub_mode}]: columns {names} shape {dense.shape}, recorded columns {expected}")
        return
    if kind == "lost" and zero_cols:
        bad = [expected[j] for j in zero_cols if not (dense[:, j] == 0).all()]
        if bad:
            res.fail("C09.lost-levels.zero-columns", f"{output}:{where}{sub_tag}", wit("C09.lost-levels.zero-columns"),
                     f"{scen} [{sub_mode}]: columns {bad} of absent level(s) {c['absent']} are not all zero")
    if kind == "gained":
        if not any(issubclass(w.category, DataMismatchWarning) for w in caught):
            res.fail("C09.gained-levels.DataMismatchWarning", f"{where}{sub_tag}",
                     wit("C09.gained-levels.DataMismatchWarning"),
                     f"{scen} [{sub_mode}]: warnings emitted: {[w.category.__name__ for w in caught]}")


def _worker(cases):
    from formulaic import model_matrix
    from formulaic.errors import DataMismatchWarning, FactorEncodingError

    res = WorkResult()
    for c in cases:
        formula, output, scen = c["formula"], c["output"], c["scenario"]
        train, new = _frame(c["train"]), _frame(c["new"])
        key = (formula, output, scen, c["storage"], repr(c["train"]["a"]), repr(c["new"]))
        # training must work; if it does not, the pair is outside the property (no recorded spec) and is not counted
        # as non-trivial
        try:
            with warnings.catch_warnings():
                warnings.simplefilter("ignore")
                mm = model_matrix(formula, train, output=output, context={})
        except Exception as e:  # noqa: BLE001
            # every formula of this grid fits on its training frame: failing to record the spec at all is reported
            # against the columns clause (no spec, no columns), not skipped
            res.case(key, True)
            res.fail("C09.columns.unchanged", f"fit-raises-{type(e).__name__}",
                     {"formula": formula, "output": output, "scenario": scen, "train": c["train"], "new": c["new"],
                      "code": code(WITNESS.format(train=c["train"], new=c["train"], formula=formula, output=output,
                                                  scenario="same", clause="C09.columns.unchanged", zero_cols=[], subset=None))},
                     f"recording the spec for {formula!r} raised {type(e).__name__}: {e}"[:600])
            continue
        changed = "x" if scen.startswith("kind:num->cat") else "a"
        for sub_mode, subset in _subsets(mm.model_spec, changed):
            if subset is not None and c.get("quick") and output == "numpy":
                continue  # quick tier: derived specs under pandas and sparse output only
            try:
                spec = mm.model_spec if subset is None else mm.model_spec.subset(subset)
                expected = list(spec.column_names)
            except Exception as e:  # noqa: BLE001 - subsetting itself is C10's subject; without a spec nothing to judge
                res.case(key + (sub_mode,), nontrivial=False)
                res.stats[("subset-failed", type(e).__name__)] += 1
                continue
            if not set(expected) <= set(mm.model_spec.column_names):
                res.case(key + (sub_mode,), True)
                res.fail("C09.columns.unchanged", "subset-introduces-columns:" + sub_mode,
                         {"formula": formula, "output": output, "subset": subset, "train": c["train"], "new": c["new"],
                          "code": code(WITNESS.format(train=c["train"], new=c["train"], formula=formula, output=output,
                                                      scenario="same", clause="C09.subset.columns", zero_cols=[],
                                                      subset=subset))},
                         f"subset {subset} has columns {expected} not among the training columns")
                continue
            _judge_pair(res, c, key + (sub_mode,), spec, subset, sub_mode, expected, new, FactorEncodingError,
                        DataMismatchWarning)
    return res.pack()


def run_bounded(ctx):
    rng = random.Random(ctx.seed * 1000003 + 9)
    if not ctx.explanation:
        ctx.explanation = ("bounded stand-in: (training, follow-up) frame pairs over kind changes, lost and gained levels; "
                           "oracle = exception type / warning category / unchanged column names")
    ctx.assume(
        "A-kind(C09): 'kind' is judged on bare data columns (a categorical column stored as object/category arriving as "
        "float/int and vice versa); factors wrapped in C(...) are categorical by construction and are only used for the "
        "level scenarios",
        "A-zero-columns(C09): 'all-zero column of an absent level' is checked for dummy/treatment coding only (column "
        "name component a[T.level] / a[level]); for sum/helmert/poly contrasts only names and warnings are checked",
        "A-str-dtype(C09): categorical columns are stored as object or category (pandas-3 `str` columns are the subject of C08)",
    )
    with ctx.bounded(
        "train-followup-pairs",
        rule="26 categorical-side formulas (the factor bare, wrapped in C(...), with explicitly nominated levels in three "
             "orders, under 5 contrasts) x {same, all 6 proper level sub-sets, 5 unseen-level mixes, 1-row and 3-row "
             "follow-ups} + kind changes (cat->num as float/int/other floats over 13 formulas; num->cat with 1..3 levels "
             "over 8 formulas) x storage {object, category, category of ints} x output {pandas, numpy, sparse} x dtype of the "
             "follow-up frame's text columns {object, str, string[python], string[pyarrow], ArrowDtype(string), "
             "ArrowDtype(large_string), category} (quick: one per case in rotation; thorough: all) x spec "
             "{as recorded, ModelSpec.subset to interaction terms only / main effects only / reversed order / last term "
             "only, when different and still involving the changed factor}; distinct = "
             "(formula, output, scenario, storage, spec variant); a pair is non-trivial iff the training materialization succeeds",
        exhaustive=True,
        bound="levels {p,q,r}+{y,z}, 7-row training frame, formulas and scenarios as listed (fully crossed)",
    ) as b:
        rep = Reporter(ctx, b)
        cases = _with_followup_dtypes(_cases(rng, ctx.thorough), ctx.thorough)
        for c in cases:
            c["quick"] = not ctx.thorough
        stats = Counter()
        merge(b, rep, pmap(guard("vf.bounded.c09", "_worker", "C09.columns.unchanged"), chunked(cases, 32)), stats)
        failed = {k[1]: v for k, v in stats.items() if k[0] == "train-failed"}
        if failed:
            ctx.notes.append(f"bounded:train-followup-pairs: pairs skipped because the training materialization failed: {failed}")
        sub_failed = {k[1]: v for k, v in stats.items() if k[0] == "subset-failed"}
        if sub_failed:
            ctx.notes.append(f"bounded:train-followup-pairs: spec variants skipped because ModelSpec.subset failed: {sub_failed}")
        rep.close()

    n_random = 30000 if ctx.thorough else 600
    with ctx.bounded(
        "random-pairs",
        rule="seeded random (training, follow-up) pairs: 2..5 levels, 4..12 training rows, 1..12 follow-up rows, random "
             "formula / storage / output / scenario (same, lost, gained, cat->num, num->cat); same oracle; distinct = "
             "(formula, output, scenario, storage, frames)",
        bound=f"{n_random} pairs",
    ) as b:
        rep = Reporter(ctx, b)
        cases = _with_followup_dtypes(_random_cases(rng, n_random), False)
        stats = Counter()
        merge(b, rep, pmap(guard("vf.bounded.c09", "_worker", "C09.columns.unchanged"), chunked(cases, 32)), stats)
        rep.close()
