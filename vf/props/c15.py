"""Property C15: deductive obligations (vf/proofs/c15.py) + bounded stand-in (vf/bounded/c15.py)."""
from vf.props._common import run_both


def run(ctx):
    run_both(ctx, "c15")
