"""Property C08: deductive obligations (vf/proofs/c08.py) + bounded stand-in (vf/bounded/c08.py)."""
from vf.props._common import run_both


def run(ctx):
    run_both(ctx, "c08")
