"""Property C01: deductive obligations (vf/proofs/c01.py) + bounded stand-in (vf/bounded/c01.py)."""
from vf.props._common import run_both


def run(ctx):
    run_both(ctx, "c01")
