"""Property C07: deductive obligations (vf/proofs/c07.py) + bounded stand-in (vf/bounded/c07.py)."""
from vf.props._common import run_both


def run(ctx):
    run_both(ctx, "c07")
