import importlib
import importlib.util


def _maybe(name):
    if importlib.util.find_spec(name) is None:
        return None
    return importlib.import_module(name)


def run_both(ctx, pid):
    proofs = _maybe(f"vf.proofs.{pid}")
    bounded = _maybe(f"vf.bounded.{pid}")
    if proofs is None and bounded is None:
        ctx.mark_broken("no machinery for this property")
        return
    if proofs is not None:
        proofs.run_proofs(ctx)
    import os

    if bounded is not None and not os.environ.get("VERIF_PROOFS_ONLY"):     # (debug/ledger refresh only: never set by a registered command)
        bounded.run_bounded(ctx)
