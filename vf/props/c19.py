"""Property C19: deductive obligations (vf/proofs/c19.py) + bounded stand-in (vf/bounded/c19.py)."""
from vf.props._common import run_both


def run(ctx):
    run_both(ctx, "c19")
