"""Property C10: deductive obligations (vf/proofs/c10.py) + bounded stand-in (vf/bounded/c10.py)."""
from vf.props._common import run_both


def run(ctx):
    run_both(ctx, "c10")
