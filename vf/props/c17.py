"""Property C17: deductive obligations (vf/proofs/c17.py) + bounded stand-in (vf/bounded/c17.py)."""
from vf.props._common import run_both


def run(ctx):
    run_both(ctx, "c17")
