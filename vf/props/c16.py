"""Property C16: deductive obligations (vf/proofs/c16.py) + bounded stand-in (vf/bounded/c16.py)."""
from vf.props._common import run_both


def run(ctx):
    run_both(ctx, "c16")
