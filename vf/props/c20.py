"""Property C20: deductive obligations (vf/proofs/c20.py) + bounded stand-in (vf/bounded/c20.py)."""
from vf.props._common import run_both


def run(ctx):
    run_both(ctx, "c20")
