"""Property C06: deductive obligations (vf/proofs/c06.py) + bounded stand-in (vf/bounded/c06.py)."""
from vf.props._common import run_both


def run(ctx):
    run_both(ctx, "c06")
