"""Property C18: deductive obligations (vf/proofs/c18.py) + bounded stand-in (vf/bounded/c18.py)."""
from vf.props._common import run_both


def run(ctx):
    run_both(ctx, "c18")
