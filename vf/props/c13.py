"""Property C13: deductive obligations (vf/proofs/c13.py) + bounded stand-in (vf/bounded/c13.py)."""
from vf.props._common import run_both


def run(ctx):
    run_both(ctx, "c13")
