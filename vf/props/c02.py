"""Property C02: deductive obligations (vf/proofs/c02.py) + bounded stand-in (vf/bounded/c02.py)."""
from vf.props._common import run_both


def run(ctx):
    run_both(ctx, "c02")
