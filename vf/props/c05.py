"""Property C05: deductive obligations (vf/proofs/c05.py) + bounded stand-in (vf/bounded/c05.py)."""
from vf.props._common import run_both


def run(ctx):
    run_both(ctx, "c05")
