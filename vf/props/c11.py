"""Property C11: deductive obligations (vf/proofs/c11.py) + bounded stand-in (vf/bounded/c11.py)."""
from vf.props._common import run_both


def run(ctx):
    run_both(ctx, "c11")
