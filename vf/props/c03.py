"""Property C03: deductive obligations (vf/proofs/c03.py) + bounded stand-in (vf/bounded/c03.py)."""
from vf.props._common import run_both


def run(ctx):
    run_both(ctx, "c03")
