"""Property C09: deductive obligations (vf/proofs/c09.py) + bounded stand-in (vf/bounded/c09.py)."""
from vf.props._common import run_both


def run(ctx):
    run_both(ctx, "c09")
