"""Property C12: deductive obligations (vf/proofs/c12.py) + bounded stand-in (vf/bounded/c12.py)."""
from vf.props._common import run_both


def run(ctx):
    run_both(ctx, "c12")
