"""Property C14: deductive obligations (vf/proofs/c14.py) + bounded stand-in (vf/bounded/c14.py)."""
from vf.props._common import run_both


def run(ctx):
    run_both(ctx, "c14")
