"""Property C04: deductive obligations (vf/proofs/c04.py) + bounded stand-in (vf/bounded/c04.py)."""
from vf.props._common import run_both


def run(ctx):
    run_both(ctx, "c04")
