"""usage: mut.py <prop> [mutant-name]; runs a reduced scope of the bounded driver against a scratch copy
of /repo/formulaic with one mutation applied (PYTHONPATH trick), prints (clause, cls) counts."""
import sys, os, shutil, tempfile, subprocess, json, re

MUTANTS = {
 'none': [],
 'raise-not': [('materializers/base.py', 'if null_indices:\n                    raise ValueError(f"`{name}` contains', 'if not null_indices:\n                    raise ValueError(f"`{name}` contains')],
 'sparse-skip-drop': [('materializers/pandas.py', '        if drop_rows:\n            values = drop_nulls(values, indices=drop_rows)\n        if spec.output == "sparse":\n            return spsparse.csc_matrix(\n                numpy.array(values).reshape', '        if drop_rows and spec.output != "sparse":\n            values = drop_nulls(values, indices=drop_rows)\n        if spec.output == "sparse":\n            return spsparse.csc_matrix(\n                numpy.array(values).reshape')],
 'drop-unsorted-off-by-one': [('materializers/base.py', 'drop_rows: Sequence[int] = sorted(drop_rows)', 'drop_rows: Sequence[int] = sorted(drop_rows)[1:]')],
 'sort-categories': [('transforms/contrasts.py', 'data = pandas.Series(data).astype("category")', 'data = pandas.Series(data).astype("category")\n        data = data.cat.reorder_categories(sorted(data.cat.categories))')],
 'bool-categorical': [('materializers/pandas.py', 'return values.dtype == object or isinstance(', 'return values.dtype == object or values.dtype == bool or isinstance(')],
 'float32-as-cat': [('materializers/pandas.py', 'return values.dtype == object or isinstance(', 'return values.dtype == object or values.dtype == "float32" or isinstance(')],
 'mutate-data': [('materializers/pandas.py', '    def _init(self) -> None:\n        if isinstance(self.data, (dict, Mapping)):', '    def _init(self) -> None:\n        if isinstance(self.data, pandas.DataFrame) and "a" in self.data:\n            self.data["a"] = self.data["a"] + 0.0\n            self.data.loc[self.data.index[0], "a"] = -1.0\n        if isinstance(self.data, (dict, Mapping)):')],
 'hash-order-columns': [('materializers/pandas.py', '            {col[0]: col[1] for col in cols},', '            {name: dict(cols)[name] for name in set(c[0] for c in cols)},')],
 'parser-flag': [('sugar.py', '    _context = capture_context(context + 1) if isinstance(context, int) else context', '    from . import formula as _f\n    _f.DEFAULT_PARSER.include_intercept = not _f.DEFAULT_PARSER.include_intercept if str(spec_overrides.get("output")) == "numpy" else _f.DEFAULT_PARSER.include_intercept\n    _context = capture_context(context + 1) if isinstance(context, int) else context')],
 'own-drop-set-per-part': [('materializers/base.py', '                lambda model_spec: self._build_model_matrix(\n                    model_spec, drop_rows=drop_rows\n                ),', '                lambda model_spec: self._build_model_matrix(\n                    model_spec, drop_rows=sorted(set().union(*[find_nulls(self.factor_cache[f.expr].values) for t in model_spec.formula for f in t.factors] or [set()]))\n                ),')],
 'spec-drops-state': [('materializers/base.py', '        model_specs._map(\n            lambda ms: ms.transform_state.update(\n                factor_evaluation_model_spec.transform_state\n            )\n        )', '        pass')],
}

RUNNERS = {
'C06': '''
import random, collections
from vf.bounded import c06, _nullrows_common as K
rng = random.Random(1)
tasks = list(c06.cross_cases(rng, 1, c06.S_KINDS))
res = K.run_pool(c06._worker, tasks, chunk=200)
cnt = collections.Counter()
for n_eval, keys, samples, failures in res:
    for f in failures:
        if 'skipped' in f: cnt['skipped'] += f['skipped']
        else: cnt[f['clause'] + ' [' + f['cls'] + ']'] += 1
print('RESULT ' + __import__('json').dumps(cnt))
''',
'C07': '''
import random, collections
from vf.bounded import c07, _nullrows_common as K
sk = c07.skeletons(3, 4)
sub = sk[:80] + random.Random(1).sample(sk, 400)
tasks = list(c07.gen_cases(random.Random(3), sub, 1))
res = K.run_pool(c07._worker, tasks, chunk=40)
cnt = collections.Counter()
for n_eval, keys, samples, failures in res:
    for f in failures:
        if 'skipped' in f: cnt['skipped'] += f['skipped']
        else: cnt[f['clause'] + ' [' + f['cls'] + ']'] += 1
print('RESULT ' + __import__('json').dumps(cnt))
''',
'C08': '''
import collections, json
from vf import core
from vf.bounded import c08
ctx = core.Ctx('C08', 'quick', 0)
c08.run_bounded(ctx)
cnt = collections.Counter(v['clause'] + ' [' + v['witness']['cls'] + ']' for v in ctx.violations)
print('RESULT ' + json.dumps(cnt))
''',
'C18': '''
import collections, json, random
from vf import core
from vf.bounded import c18
c18.CORE = ["center"]
_orig = c18.random_histories
c18.random_histories = lambda rng, count: _orig(rng, 80)
ctx = core.Ctx('C18', 'quick', 0)
c18.run_bounded(ctx)
cnt = collections.Counter(v['clause'] + ' [' + v['witness']['cls'] + ']' for v in ctx.violations)
print('RESULT ' + json.dumps(cnt))
''',
}

def main():
    prop, mut = sys.argv[1], (sys.argv[2] if len(sys.argv) > 2 else 'none')
    tmp = tempfile.mkdtemp(prefix='vfmut-')
    try:
        shutil.copytree('/repo/formulaic', os.path.join(tmp, 'formulaic'))
        for rel, old, new in MUTANTS[mut]:
            p = os.path.join(tmp, 'formulaic', rel)
            s = open(p).read()
            assert s.count(old) == 1, (mut, rel, s.count(old))
            open(p, 'w').write(s.replace(old, new))
        env = dict(os.environ, PYTHONPATH=tmp + ':/verif', PYTHONDONTWRITEBYTECODE='1')
        r = subprocess.run(['/verif/.venv/bin/python', '-c', 'import formulaic, sys; assert formulaic.__file__.startswith(%r), formulaic.__file__\n' % tmp + RUNNERS[prop]],
                           capture_output=True, text=True, env=env, cwd='/verif')
        out = [l for l in r.stdout.splitlines() if l.startswith('RESULT ')]
        if not out:
            print('RUN FAILED', r.stdout[-2000:], r.stderr[-3000:]); return
        cnt = json.loads(out[0][7:])
        print(f'== {prop} mutant={mut}')
        for k in sorted(cnt): print(f'   {cnt[k]:5d} {k}')
    finally:
        shutil.rmtree(tmp, ignore_errors=True)
main()
